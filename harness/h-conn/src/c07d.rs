//! C07 (part `tx`) — packet numbers under *interleaved* packet assembly.
//!
//! E2 (controlled scheduler): two or three paths of one connection share one packet-number
//! space (one real `ArcSentJournal`) and each assembles its packets on its own logical thread
//! through the real `qconnection::tx::PacketWriter` / `TrivialPacketWriter` (what
//! `PacketsAssembler::assemble` in path/burst.rs does), optionally abandoning an assembly
//! part-way, while another logical thread feeds acknowledgements into the journal.
//! Scheduling points: every call the writer makes into the packet-protection keys (the keys are
//! harness objects, so each of their methods is a point *inside* the assembly), the harness
//! operation boundaries, and the `blocked:` hook on the journal lock (a thread that finds the
//! journal taken yields instead of blocking its OS thread).
//! Oracle: the packet number handed to the AEAD as nonce input is never used twice; the
//! numbers a path puts on the wire are strictly increasing; the number a packet reports
//! (`PacketInfo`) is the one it was protected with; afterwards the journal numbers the next
//! packet above everything that left.
use std::{
    sync::{Arc, Mutex},
    time::Duration,
};

use mc_core::{
    Args, Report,
    sched::{self, Body, Ctx, Execution, SchedCfg, Scenario},
};
use qbase::{
    cid::ConnectionId,
    frame::{AckFrame, MaxDataFrame},
    packet::{
        AssemblePacket,
        header::short::OneRttHeader,
        io::{Packages, PadTo20},
        keys::DirectionalKeys,
    },
    varint::VarInt,
};
use qconnection::{
    GuaranteedFrame,
    tx::{PacketWriter, TrivialPacketWriter},
};
use qrecovery::journal::ArcSentJournal;

/// What left the endpoint, in the order the AEAD was asked to protect it.
#[derive(Default)]
pub struct Wire {
    /// (path, packet number used as nonce input)
    nonces: Mutex<Vec<(usize, u64)>>,
    /// (path, packet number reported by PacketInfo)
    reported: Mutex<Vec<(usize, u64)>>,
    /// packet number the journal hands out after everything
    next_after: Mutex<Option<u64>>,
}

struct SchedKey {
    path: usize,
    wire: Arc<Wire>,
}

impl rustls::quic::PacketKey for SchedKey {
    fn decrypt_in_place<'a>(&self, _pn: u64, _header: &[u8], payload: &'a mut [u8]) -> Result<&'a [u8], rustls::Error> {
        Ok(&payload[..payload.len() - 16])
    }
    fn encrypt_in_place(&self, packet_number: u64, _header: &[u8], _payload: &mut [u8]) -> Result<rustls::quic::Tag, rustls::Error> {
        sched::hook_point("key/encrypt_in_place");
        self.wire.nonces.lock().unwrap().push((self.path, packet_number));
        Ok(rustls::quic::Tag::from("c07d_sched__keys".as_bytes()))
    }
    fn confidentiality_limit(&self) -> u64 {
        u64::MAX
    }
    fn integrity_limit(&self) -> u64 {
        u64::MAX
    }
    fn tag_len(&self) -> usize {
        sched::hook_point("key/tag_len");
        16
    }
}

struct SchedHp;

impl rustls::quic::HeaderProtectionKey for SchedHp {
    fn decrypt_in_place(&self, _sample: &[u8], _first: &mut u8, _payload: &mut [u8]) -> Result<(), rustls::Error> {
        Ok(())
    }
    fn encrypt_in_place(&self, _sample: &[u8], _first: &mut u8, _payload: &mut [u8]) -> Result<(), rustls::Error> {
        sched::hook_point("hp/encrypt_in_place");
        Ok(())
    }
    fn sample_len(&self) -> usize {
        16
    }
}

#[derive(Debug, Clone, Copy, PartialEq)]
enum Act {
    /// a full packet through `PacketWriter` (frames recorded for retransmission)
    Send,
    /// a packet through `TrivialPacketWriter` (nothing recorded)
    SendTrivial,
    /// start a packet, then give up before protecting it
    Abandon,
    /// an ACK frame for everything sent so far arrives (journal rotate guard)
    Ack,
}

fn keys(path: usize, wire: &Arc<Wire>) -> DirectionalKeys {
    DirectionalKeys { header: Arc::new(SchedHp), packet: Arc::new(SchedKey { path, wire: wire.clone() }) }
}

/// a frame a trivial (nothing to retransmit) packet may carry
fn ack0() -> AckFrame {
    AckFrame::new(VarInt::from_u32(0), VarInt::from_u32(0), VarInt::from_u32(0), vec![], None)
}

fn header() -> OneRttHeader {
    OneRttHeader::new(Default::default(), ConnectionId::from_slice(b"c07dcid0"))
}

fn act(c: &Ctx, path: usize, a: Act, journal: &ArcSentJournal<GuaranteedFrame>, wire: &Arc<Wire>) {
    let mut buffer = [0u8; 1200];
    match a {
        Act::Send => {
            c.point("send:start");
            let mut w = PacketWriter::new_short(
                header(),
                &mut buffer,
                keys(path, wire),
                Default::default(),
                journal,
                Duration::from_millis(100),
                Duration::from_millis(300),
            )
            .expect("buffer is large enough");
            w.assemble_packet(&mut Packages((MaxDataFrame::new(VarInt::from_u32(1000 + path as u32)), PadTo20))).expect("something to send");
            let (_n, info) = w.encrypt_and_protect_packet();
            wire.reported.lock().unwrap().push((path, info.packet_number()));
            c.log(&format!("sent {}", info.packet_number()));
        }
        Act::SendTrivial => {
            c.point("send-trivial:start");
            let mut w = TrivialPacketWriter::new_short(header(), &mut buffer, keys(path, wire), Default::default(), journal)
                .expect("buffer is large enough");
            w.assemble_packet(&mut Packages((ack0(), PadTo20))).expect("something to send");
            let (_n, info) = w.encrypt_and_protect_packet();
            wire.reported.lock().unwrap().push((path, info.packet_number()));
            c.log(&format!("sent-trivial {}", info.packet_number()));
        }
        Act::Abandon => {
            c.point("abandon:start");
            let w = PacketWriter::new_short(
                header(),
                &mut buffer,
                keys(path, wire),
                Default::default(),
                journal,
                Duration::from_millis(100),
                Duration::from_millis(300),
            )
            .expect("buffer is large enough");
            drop(w);
        }
        Act::Ack => {
            c.point("ack:start");
            // acknowledge packet 0 (if it has been sent): the call sequence of AckDataSpace
            let frame = AckFrame::new(VarInt::from_u32(0), VarInt::from_u32(0), VarInt::from_u32(0), vec![], None);
            let mut guard = journal.rotate();
            if guard.update_largest(&frame).is_ok() {
                for _ in guard.on_packet_acked(0) {}
            }
        }
    }
}

pub struct Sc {
    name: &'static str,
    /// per path: the acts of its logical thread
    scripts: Vec<Vec<Act>>,
    /// packets sent before the threads start (so that the interesting numbers are not 0)
    warmup: usize,
}

impl Scenario for Sc {
    type Shared = Wire;

    fn build(&self) -> (Arc<Wire>, Vec<(String, Body)>) {
        let wire = Arc::new(Wire::default());
        let journal = ArcSentJournal::<GuaranteedFrame>::with_capacity(8);
        // warm-up traffic outside the exploration (not on a logical thread: the hooks are no-ops)
        for _ in 0..self.warmup {
            let mut buffer = [0u8; 1200];
            let mut w = TrivialPacketWriter::new_short(header(), &mut buffer, keys(usize::MAX, &wire), Default::default(), &journal).unwrap();
            w.assemble_packet(&mut Packages((ack0(), PadTo20))).unwrap();
            let (_n, info) = w.encrypt_and_protect_packet();
            wire.reported.lock().unwrap().push((usize::MAX, info.packet_number()));
        }
        let n = self.scripts.len();
        let done = Arc::new(Mutex::new(0usize));
        let mut t: Vec<(String, Body)> = Vec::new();
        for (path, script) in self.scripts.iter().cloned().enumerate() {
            let (journal, wire, done) = (journal.clone(), wire.clone(), done.clone());
            t.push((
                format!("path-{path}"),
                Box::new(move |c: &Ctx| {
                    for a in script {
                        act(c, path, a, &journal, &wire);
                    }
                    let mut d = done.lock().unwrap();
                    *d += 1;
                    if *d == n {
                        // last one out: what would the next packet be numbered?
                        *wire.next_after.lock().unwrap() = Some(journal.new_packet().pn().0);
                    }
                }),
            ));
        }
        (wire, t)
    }

    fn judge(&self, w: &Wire, exec: &Execution) -> Result<String, (String, String)> {
        let ctx = || format!("schedule {:?}; log {:?}", exec.schedule(), exec.log);
        if exec.deadlocked {
            return Err((format!("deadlock/{}", self.name), format!("threads {:?} never finished; {}", exec.unfinished, ctx())));
        }
        let nonces = w.nonces.lock().unwrap().clone();
        let reported = w.reported.lock().unwrap().clone();
        // (1) a nonce is never used twice
        let mut seen = std::collections::BTreeMap::new();
        for (path, pn) in &nonces {
            if let Some(prev) = seen.insert(*pn, *path) {
                return Err((
                    format!("nonce/reused/{}", self.name),
                    format!("packet number {pn} was used as AEAD nonce input for two packets (paths {prev} and {path}); protected in this order: {nonces:?}; {}", ctx()),
                ));
            }
        }
        // (2) per path strictly increasing
        for path in 0..self.scripts.len() {
            let mine: Vec<u64> = nonces.iter().filter(|(p, _)| *p == path).map(|(_, n)| *n).collect();
            if mine.windows(2).any(|w| w[1] <= w[0]) {
                return Err((
                    format!("order/path-not-increasing/{}", self.name),
                    format!("path {path} protected packets numbered {mine:?}; {}", ctx()),
                ));
            }
        }
        // (3) the number a packet reports is the one it was protected with
        let mut a: Vec<(usize, u64)> = nonces.clone();
        let mut b: Vec<(usize, u64)> = reported.clone();
        a.sort_unstable();
        b.sort_unstable();
        if a != b {
            return Err((
                format!("journal/reported-number-differs/{}", self.name),
                format!("protected with {nonces:?} but the packets reported {reported:?}; {}", ctx()),
            ));
        }
        // (4) the journal numbers the next packet above everything that left
        if let Some(next) = *w.next_after.lock().unwrap() {
            if let Some(max) = nonces.iter().map(|(_, n)| *n).max() {
                if next <= max {
                    return Err((
                        format!("journal/next-number-not-above-sent/{}", self.name),
                        format!("packets {nonces:?} left but the journal would number the next packet {next}; {}", ctx()),
                    ));
                }
            }
        }
        Ok(format!("{:?}", nonces.iter().map(|(p, n)| (*p as i64, *n)).collect::<Vec<_>>()))
    }
}

fn scenarios() -> Vec<Sc> {
    use Act::*;
    vec![
        Sc { name: "two-paths/one-packet-each", scripts: vec![vec![Send], vec![Send]], warmup: 2 },
        Sc { name: "two-paths/full-vs-trivial", scripts: vec![vec![Send], vec![SendTrivial]], warmup: 1 },
        Sc { name: "two-paths/two-packets-each", scripts: vec![vec![Send, SendTrivial], vec![SendTrivial, Send]], warmup: 0 },
        Sc { name: "two-paths/abandon-vs-send", scripts: vec![vec![Abandon, Send], vec![Send]], warmup: 1 },
        Sc { name: "two-paths+ack", scripts: vec![vec![Send], vec![Send], vec![Ack]], warmup: 1 },
        Sc { name: "three-paths/one-packet-each", scripts: vec![vec![Send], vec![SendTrivial], vec![Send]], warmup: 0 },
    ]
}

pub fn run(args: &Args) -> i32 {
    qbase::verif::install_sched_handler(sched::hook_point);
    let mut report = Report::new(args, "model_checking");
    report.assume("interleavings at the granularity of: harness operation boundaries, every call of the packet writer into the (harness-provided) AEAD and header-protection keys, and journal lock acquisition (a thread that finds the journal taken yields: hook `blocked:sent-journal/*`); weak-memory effects are out of scope");
    report.assume("one connection, one application packet-number space, 1-RTT packets; the keys leave the bytes alone and record the packet number they are given as nonce input");
    if args.replay.is_some() {
        println!("replay: re-run `./check C07 --only <scenario name>`; the schedule in the replay file is the exact choice sequence");
        return 2;
    }
    for sc in scenarios() {
        if !args.wants(sc.name) {
            continue;
        }
        let threads = sc.scripts.len();
        let cfg = SchedCfg {
            preemption_bound: if args.thorough { usize::MAX } else if threads >= 3 { 2 } else { 3 },
            max_schedules: if args.thorough { 400_000 } else { 30_000 },
            time_cap: Duration::from_secs(if args.thorough { 300 } else { 15 }),
        };
        let stats = sched::explore(&sc, &cfg);
        sched::file_violations(&mut report, sc.name, &stats);
        report.sub(
            sc.name,
            stats.coverage(&format!(
                "stateless DFS over all schedules of {threads} logical threads (paths assembling 1-RTT packets through the real PacketWriter / TrivialPacketWriter over one shared ArcSentJournal{}) with preemption bound {}; distinct = distinct observation logs",
                if sc.scripts.iter().flatten().any(|a| *a == Act::Ack) { ", one thread feeding an acknowledgement" } else { "" },
                if cfg.preemption_bound == usize::MAX { "unbounded".to_string() } else { cfg.preemption_bound.to_string() }
            )),
        );
    }
    report.finish()
}
