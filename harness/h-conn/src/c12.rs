//! C12 (peer frames) and C11 (receive side) — every hostile stream frame after every short
//! legitimate history, on one real endpoint (real DataStreams behind the real
//! FlowControlledDataStreams), against the RFC 9000 §4.5/§4.6/§19 verdict table.
use std::collections::BTreeMap;

use bytes::Bytes;
use mc_core::{Args, Report, panics, report::Coverage};
use qbase::{
    error::{Error, ErrorKind},
    frame::{
        MaxStreamDataFrame, ResetStreamFrame, StopSendingFrame, StreamCtlFrame, StreamDataBlockedFrame,
        StreamFrame,
    },
    role::Role,
    sid::{Dir, StreamId},
    varint::VarInt,
};
use serde_json::{Value, json};

use crate::pipe::{Cfg, Endpoint, SideCfg};

const STREAM_LIMIT: u64 = 4; // every per-stream receive limit of the endpoint under test
const CONN_LIMIT: u64 = 5;

#[derive(Debug, Clone, Copy, PartialEq)]
enum Kind {
    Stream { off: u64, len: usize, fin: bool },
    Reset { final_size: u64 },
    Stop,
    MaxStreamData { v: u64 },
    Blocked { v: u64 },
}

#[derive(Debug, Clone, Copy)]
struct Hostile {
    peer_initiated: bool,
    dir: Dir,
    idx: u64,
    kind: Kind,
}

fn vi(v: u64) -> VarInt {
    VarInt::from_u64(v).unwrap()
}

fn payload(off: u64, len: usize) -> Bytes {
    Bytes::from((0..len).map(|i| ((off as usize + i) % 251) as u8).collect::<Vec<u8>>())
}

fn deliver(ep: &Endpoint, sid: StreamId, kind: Kind) -> Result<(), Error> {
    match kind {
        Kind::Stream { off, len, fin } => {
            let mut f = StreamFrame::new(sid, off, len);
            f.set_eos_flag(fin);
            ep.peer_stream(f, payload(off, len))
        }
        Kind::Reset { final_size } => ep.peer_ctl(StreamCtlFrame::ResetStream(ResetStreamFrame::new(sid, vi(3), vi(final_size)))),
        Kind::Stop => ep.peer_ctl(StreamCtlFrame::StopSending(StopSendingFrame::new(sid, vi(5)))),
        Kind::MaxStreamData { v } => ep.peer_ctl(StreamCtlFrame::MaxStreamData(MaxStreamDataFrame::new(sid, vi(v)))),
        Kind::Blocked { v } => ep.peer_ctl(StreamCtlFrame::StreamDataBlocked(StreamDataBlockedFrame::new(sid, vi(v)))),
    }
}

fn kind_name(k: Kind) -> &'static str {
    match k {
        Kind::Stream { .. } => "STREAM",
        Kind::Reset { .. } => "RESET_STREAM",
        Kind::Stop => "STOP_SENDING",
        Kind::MaxStreamData { .. } => "MAX_STREAM_DATA",
        Kind::Blocked { .. } => "STREAM_DATA_BLOCKED",
    }
}

fn err_kind(r: &Result<(), Error>) -> Option<ErrorKind> {
    match r {
        Ok(()) => None,
        Err(Error::Quic(q)) => Some(q.kind()),
        Err(_) => Some(ErrorKind::Internal),
    }
}

#[derive(Debug, Clone)]
struct Case {
    role: Role,
    sb: u64,
    su: u64,
    demand: bool,
    /// legitimate prefix: 0 = nothing, 1 = peer used its stream 0 of each allowed kind,
    /// 2 = additionally the endpoint opened one bidi and one uni stream itself
    prefix: u8,
}

fn cfg_for(c: &Case) -> Cfg {
    let local = SideCfg { max_data: CONN_LIMIT, bidi_local: STREAM_LIMIT, bidi_remote: STREAM_LIMIT, uni: STREAM_LIMIT, streams_bidi: c.sb, streams_uni: c.su };
    let remote = SideCfg::roomy();
    let (client, server) = if c.role == Role::Client { (local, remote) } else { (remote, local) };
    Cfg { client, server, cap: 1200, demand_concurrency: c.demand, scripts: [vec![], vec![]], read_caps: vec![], max_packets: 0 }
}

struct Ctx {
    ep: Endpoint,
    peer: Role,
    /// streams the endpoint has opened itself: [bidi, uni]
    opened: [u64; 2],
    /// bytes received so far (connection level)
    conn_rcvd: u64,
}

fn setup(c: &Case) -> Result<Ctx, String> {
    let cfg = cfg_for(c);
    let mut ep = Endpoint::new(c.role, &cfg);
    let peer = if c.role == Role::Client { Role::Server } else { Role::Client };
    let mut conn_rcvd = 0;
    let mut opened = [0u64; 2];
    if c.prefix >= 1 {
        for (dir, lim) in [(Dir::Bi, c.sb), (Dir::Uni, c.su)] {
            if lim >= 1 {
                let sid = StreamId::new(peer, dir, 0);
                deliver(&ep, sid, Kind::Stream { off: 0, len: 1, fin: false }).map_err(|e| format!("legit prefix rejected: {e}"))?;
                conn_rcvd += 1;
            }
        }
    }
    if c.prefix >= 2 {
        if ep.open(true).is_some() {
            opened[0] = 1;
        }
        if ep.open(false).is_some() {
            opened[1] = 1;
        }
    }
    Ok(Ctx { ep, peer, opened, conn_rcvd })
}

/// The acceptable outcomes for one hostile frame: a set of error kinds, `None` = accepted.
fn expected(c: &Case, ctx: &Ctx, h: &Hostile) -> (Vec<Option<ErrorKind>>, &'static str) {
    let peer_sends = matches!(h.kind, Kind::Stream { .. } | Kind::Reset { .. } | Kind::Blocked { .. });
    let d = if h.dir == Dir::Bi { 0 } else { 1 };
    let adv = [c.sb, c.su][d];
    let mut must: Vec<Option<ErrorKind>> = Vec::new();
    let mut why = "ok";
    // wrong direction (RFC 9000 §19.4/19.5/19.8/19.10/19.13: STREAM_STATE_ERROR)
    let wrong_dir = h.dir == Dir::Uni && (peer_sends != h.peer_initiated);
    if wrong_dir {
        must.push(Some(ErrorKind::StreamState));
        why = "wrong-direction";
    }
    // beyond the advertised stream count (§4.6: STREAM_LIMIT_ERROR)
    if h.peer_initiated && h.idx >= adv {
        must.push(Some(ErrorKind::StreamLimit));
        why = match (wrong_dir, h.idx == adv) {
            (true, _) => "wrong-direction+beyond-limit",
            (false, true) => "index-equals-advertised-count",
            (false, false) => "beyond-limit",
        };
    }
    if !must.is_empty() {
        return (must, why);
    }
    // a locally initiated stream that does not exist yet: the RFC wants STREAM_STATE_ERROR for
    // STREAM / MAX_STREAM_DATA / STOP_SENDING; the property statement does not list it, so
    // both behaviours are accepted here (counted only)
    if !h.peer_initiated && h.idx >= ctx.opened[d] {
        return (vec![None, Some(ErrorKind::StreamState)], "local-not-created");
    }
    // flow control on data (C11 receive side)
    match h.kind {
        Kind::Stream { off, len, .. } => {
            let end = off.saturating_add(len as u64);
            if end > (1u64 << 62) - 1 {
                return (vec![Some(ErrorKind::FrameEncoding), Some(ErrorKind::FlowControl), Some(ErrorKind::FinalSize)], "offset-overflow");
            }
            // bytes already received on that stream by the legit prefix: 1 on peer stream 0
            let had = if h.peer_initiated && h.idx == 0 && c.prefix >= 1 { 1 } else { 0 };
            if end > STREAM_LIMIT {
                return (vec![Some(ErrorKind::FlowControl)], "beyond-stream-flow-limit");
            }
            // connection level: only bytes that really arrived are demanded to be charged (a
            // FIN-only frame announces a final size whose bytes may still be in flight)
            let new = if len == 0 { 0 } else { end.saturating_sub(had) };
            if ctx.conn_rcvd + new > CONN_LIMIT {
                return (vec![Some(ErrorKind::FlowControl)], "beyond-connection-flow-limit");
            }
            (vec![None], "ok")
        }
        Kind::Reset { final_size } => {
            let had = if h.peer_initiated && h.idx == 0 && c.prefix >= 1 { 1 } else { 0 };
            if final_size < had {
                return (vec![Some(ErrorKind::FinalSize)], "reset-below-received");
            }
            if final_size > STREAM_LIMIT {
                return (vec![Some(ErrorKind::FlowControl)], "reset-beyond-stream-flow-limit");
            }
            // connection level: the statement speaks of data; charging a reset's unreceived
            // remainder (RFC 9000 §4.5) is allowed but not demanded here
            if ctx.conn_rcvd + (final_size - had) > CONN_LIMIT {
                return (vec![None, Some(ErrorKind::FlowControl)], "reset-remainder-beyond-connection-limit");
            }
            (vec![None], "ok")
        }
        _ => (vec![None], "ok"),
    }
}

fn hostile_set(c: &Case, opened: [u64; 2]) -> Vec<Hostile> {
    let mut v = Vec::new();
    let kinds = [
        Kind::Stream { off: 0, len: 0, fin: false },
        Kind::Stream { off: 0, len: 1, fin: false },
        Kind::Stream { off: 0, len: 1, fin: true },
        Kind::Stream { off: 0, len: 4, fin: false },
        Kind::Stream { off: 0, len: 5, fin: false },
        Kind::Stream { off: 0, len: 5, fin: true },
        Kind::Stream { off: 3, len: 2, fin: true },
        Kind::Stream { off: 4, len: 0, fin: true },
        Kind::Stream { off: 5, len: 0, fin: true },
        Kind::Stream { off: (1 << 62) - 2, len: 1, fin: false },
        Kind::Reset { final_size: 0 },
        Kind::Reset { final_size: 1 },
        Kind::Reset { final_size: 4 },
        Kind::Reset { final_size: 5 },
        Kind::Reset { final_size: (1 << 62) - 1 },
        Kind::Stop,
        Kind::MaxStreamData { v: 0 },
        Kind::MaxStreamData { v: 10 },
        Kind::Blocked { v: 0 },
    ];
    for peer_initiated in [true, false] {
        for (d, dir) in [(0usize, Dir::Bi), (1, Dir::Uni)] {
            let max = if peer_initiated { [c.sb, c.su][d] } else { opened[d] };
            let mut idxs = vec![0u64, max.saturating_sub(1), max, max + 1, (1 << 60) - 1];
            idxs.sort();
            idxs.dedup();
            for idx in idxs {
                for kind in kinds {
                    v.push(Hostile { peer_initiated, dir, idx, kind });
                }
            }
        }
    }
    v
}

fn replay_json(c: &Case, h: Option<&Hostile>, extra: Value) -> Value {
    json!({"sub": "peer-frames", "case": format!("{c:?}"), "frame": h.map(|h| format!("{h:?}")), "more": extra})
}

#[derive(Default)]
struct Acc {
    evals: u64,
    outcomes: BTreeMap<String, u64>,
    samples: Vec<Value>,
    viols: Vec<(String, String, Value)>,
}

fn run_case(c: &Case, want_c11: bool) -> Acc {
    let mut acc = Acc::default();
    let probe = match setup(c) {
        Ok(p) => p,
        Err(e) => {
            acc.viols.push(("c12/legit-prefix-rejected".into(), format!("{c:?}: {e}"), replay_json(c, None, json!(null))));
            return acc;
        }
    };
    let set = hostile_set(c, probe.opened);
    drop(probe);
    for h in set {
        let r = panics::catch(|| {
            let ctx = setup(c).expect("setup succeeded once");
            let sid_role = if h.peer_initiated { ctx.peer } else { c.role };
            let sid = StreamId::new(sid_role, h.dir, h.idx);
            let res = deliver(&ctx.ep, sid, h.kind);
            let (allowed, why) = expected(c, &ctx, &h);
            (err_kind(&res), allowed, why, res.err().map(|e| e.to_string()))
        });
        acc.evals += 1;
        match r {
            Err(p) => acc.viols.push((format!("panic/{}", p.class()), format!("{c:?} {h:?}: {} at {}", p.message, p.location), replay_json(c, Some(&h), json!(null)))),
            Ok((got, allowed, why, msg)) => {
                *acc.outcomes.entry(format!("{why}->{got:?}")).or_default() += 1;
                if acc.samples.len() < 2 {
                    acc.samples.push(json!({"case": format!("{c:?}"), "frame": format!("{h:?}"), "outcome": format!("{got:?}"), "class": why}));
                }
                if !allowed.contains(&got) {
                    let is_c11 = why.contains("flow-limit");
                    if is_c11 != want_c11 {
                        continue;
                    }
                    let fam = if is_c11 { "c11/recv" } else { "c12/peer" };
                    let with_fin = matches!(h.kind, Kind::Stream { fin: true, .. });
                    let sig = if why == "index-equals-advertised-count" {
                        // one root cause whatever the frame kind: the stream is created although its
                        // index equals the advertised count
                        "c12/peer/index-equals-advertised-count/not-rejected".to_string()
                    } else {
                        format!(
                        "{fam}/{}/{why}{}/got-{}",
                        kind_name(h.kind),
                        if is_c11 && with_fin { "-with-fin" } else { "" },
                        got.map(|k| format!("{k:?}")).unwrap_or_else(|| "accepted".into())
                    )
                    };
                    acc.viols.push((
                        sig,
                        format!("{c:?}: {h:?} expected one of {allowed:?}, got {got:?} ({msg:?})"),
                        replay_json(c, Some(&h), json!(null)),
                    ));
                }
            }
        }
    }
    acc
}

/// Two-frame final-size contradictions on a valid peer stream, and implicit opening.
fn run_sequences(c: &Case, acc: &mut Acc) {
    let peer = if c.role == Role::Client { Role::Server } else { Role::Client };
    for (dir, lim) in [(Dir::Bi, c.sb), (Dir::Uni, c.su)] {
        if lim == 0 {
            continue;
        }
        let sid = StreamId::new(peer, dir, 0);
        use Kind::*;
        let seqs: Vec<(Vec<Kind>, ErrorKind, &str)> = vec![
            // (the first frame leaves byte 0 missing, so the receiving part stays open: the
            // RFC's "even after a stream is closed" is only a SHOULD and is not demanded)
            (vec![Stream { off: 1, len: 1, fin: true }, Stream { off: 2, len: 1, fin: false }], ErrorKind::FinalSize, "data-beyond-final-size"),
            (vec![Stream { off: 1, len: 2, fin: true }, Stream { off: 1, len: 1, fin: true }], ErrorKind::FinalSize, "final-size-changed-by-fin"),
            (vec![Stream { off: 0, len: 3, fin: false }, Stream { off: 0, len: 2, fin: true }], ErrorKind::FinalSize, "fin-below-received"),
            (vec![Stream { off: 2, len: 2, fin: false }, Stream { off: 0, len: 1, fin: true }], ErrorKind::FinalSize, "fin-below-received-beyond-gap"),
            (vec![Stream { off: 2, len: 2, fin: false }, Stream { off: 0, len: 3, fin: true }], ErrorKind::FinalSize, "fin-inside-received-beyond-gap"),
            (vec![Stream { off: 0, len: 3, fin: false }, Reset { final_size: 2 }], ErrorKind::FinalSize, "reset-below-received"),
            (vec![Stream { off: 2, len: 2, fin: false }, Reset { final_size: 3 }], ErrorKind::FinalSize, "reset-below-received-beyond-gap"),
            (vec![Stream { off: 1, len: 1, fin: true }, Reset { final_size: 3 }], ErrorKind::FinalSize, "reset-changes-final-size"),
            (vec![Stream { off: 1, len: 1, fin: true }, Stream { off: 0, len: 1, fin: true }], ErrorKind::FinalSize, "second-fin-at-other-size"),
        ];
        for (seq, want, name) in seqs {
            let r = panics::catch(|| {
                let ctx = setup(&Case { prefix: 0, ..c.clone() }).expect("setup");
                let mut last = Ok(());
                for (i, k) in seq.iter().enumerate() {
                    last = deliver(&ctx.ep, sid, *k);
                    if i + 1 < seq.len() && last.is_err() {
                        return (Some(format!("legit first frame rejected: {:?}", err_kind(&last))), None);
                    }
                }
                (None, err_kind(&last))
            });
            acc.evals += 1;
            match r {
                Err(p) => acc.viols.push((format!("panic/{}", p.class()), format!("{c:?} {name}: {}", p.message), replay_json(c, None, json!({"seq": name})))),
                Ok((Some(e), _)) => acc.viols.push(("c12/legit-prefix-rejected".into(), format!("{c:?} {name}: {e}"), replay_json(c, None, json!({"seq": name})))),
                Ok((None, got)) => {
                    *acc.outcomes.entry(format!("{name}->{got:?}")).or_default() += 1;
                    if got != Some(want) {
                        acc.viols.push((
                            format!("c12/final-size/{name}/got-{}", got.map(|k| format!("{k:?}")).unwrap_or_else(|| "accepted".into())),
                            format!("{c:?}: {dir:?} stream, {seq:?}: expected {want:?}, got {got:?}"),
                            replay_json(c, None, json!({"seq": name, "dir": format!("{dir:?}")})),
                        ));
                    }
                }
            }
        }
        // implicit opening: using index j offers 0..=j, each exactly once
        for j in 0..lim.min(3) {
            let r = panics::catch(|| {
                let mut ctx = setup(&Case { prefix: 0, ..c.clone() }).expect("setup");
                let sid = StreamId::new(peer, dir, j);
                let r1 = deliver(&ctx.ep, sid, Kind::Stream { off: 0, len: 1, fin: false });
                let first = ctx.ep.accept_all();
                // touching a lower stream and the same stream again must not offer anything twice
                let _ = deliver(&ctx.ep, StreamId::new(peer, dir, 0), Kind::Stream { off: 0, len: 1, fin: false });
                let _ = deliver(&ctx.ep, sid, Kind::Stream { off: 1, len: 1, fin: false });
                let second = ctx.ep.accept_all();
                (err_kind(&r1), first.map_err(|e| e.to_string()), second.map_err(|e| e.to_string()))
            });
            acc.evals += 1;
            match r {
                Err(p) => acc.viols.push((format!("panic/{}", p.class()), format!("{c:?} implicit-open {dir:?} {j}: {}", p.message), replay_json(c, None, json!({"implicit": j})))),
                Ok((e, first, second)) => {
                    let pick = |x: &Result<(Vec<StreamId>, Vec<StreamId>), String>| -> Vec<u64> {
                        match x {
                            Ok((bi, uni)) => (if dir == Dir::Bi { bi } else { uni }).iter().map(|s| s.id()).collect(),
                            Err(_) => vec![u64::MAX],
                        }
                    };
                    let (a, b) = (pick(&first), pick(&second));
                    let mut all = a.clone();
                    all.extend(b.iter());
                    let mut sorted = all.clone();
                    sorted.sort();
                    let want: Vec<u64> = (0..=j).collect();
                    *acc.outcomes.entry(format!("implicit-open-{}", sorted == want)).or_default() += 1;
                    if e.is_some() || sorted != want {
                        acc.viols.push((
                            "c12/implicit-open/not-each-lower-stream-exactly-once".into(),
                            format!("{c:?}: peer used {dir:?} stream index {j} (error {e:?}); accept offered {a:?} then {b:?}, expected each of {want:?} exactly once"),
                            replay_json(c, None, json!({"implicit": j, "dir": format!("{dir:?}")})),
                        ));
                    }
                }
            }
        }
    }
}

/// `c11 = true` files the receive-side flow-control clauses (C11), else the C12 clauses.
pub fn run_part(report: &mut Report, thorough: bool, c11: bool) {
    let mut cases = Vec::new();
    for role in [Role::Client, Role::Server] {
        for sb in [0u64, 1, 3] {
            for su in [0u64, 1, 3] {
                for demand in [false, true] {
                    for prefix in 0..3u8 {
                        if !thorough && demand && prefix == 1 {
                            continue;
                        }
                        cases.push(Case { role, sb, su, demand, prefix });
                    }
                }
            }
        }
    }
    let accs = mc_core::par::par_map(&cases, |c| {
        let mut a = run_case(c, c11);
        if !c11 && c.prefix == 0 {
            run_sequences(c, &mut a);
        }
        a
    });
    let mut evals = 0;
    let mut outcomes: BTreeMap<String, u64> = BTreeMap::new();
    let mut samples = Vec::new();
    for a in accs {
        evals += a.evals;
        for (k, v) in a.outcomes {
            *outcomes.entry(k).or_default() += v;
        }
        if samples.len() < 4 {
            samples.extend(a.samples);
        }
        for (sig, detail, replay) in a.viols {
            report.violation(&sig, &detail, replay);
        }
    }
    let mut extra = serde_json::Map::new();
    extra.insert("outcome_classes".into(), json!(outcomes));
    report.sub(
        if c11 { "recv-side-hostile-frames" } else { "peer-frames" },
        Coverage {
            evaluations: evals,
            distinct_nontrivial: outcomes.len() as u64,
            exhaustive: true,
            rule: "for both roles × advertised stream counts {0,1,3}² × both concurrency strategies × legitimate prefixes {none, peer used its first streams, +local opens}: every frame of {STREAM with 10 (offset,len,FIN) shapes, RESET_STREAM with 5 final sizes, STOP_SENDING, MAX_STREAM_DATA, STREAM_DATA_BLOCKED} × stream id over (initiator, direction) × index {0, max-1, max, max+1, 2^60-1} delivered through the real FlowControlledDataStreams and compared with the RFC 9000 verdict (stream-limit / stream-state / flow-control); plus two-frame final-size contradictions and implicit opening; distinct = distinct (class → outcome) pairs".into(),
            samples,
            extra,
            ..Default::default()
        },
    );
}


/// C11, receive side: the limit the endpoint *enforces* on a stream is the limit it has
/// *advertised* — whatever the application did in between (reads that slide the window, with or
/// without a preceding `stop()`). After every such history a frame ending one byte beyond the
/// largest advertised MAX_STREAM_DATA (or the initial limit) must be answered with
/// FLOW_CONTROL_ERROR, and a frame ending exactly at it must not be refused for flow control.
fn advertised_limit_part(report: &mut Report, thorough: bool) {
    use std::task::{Context, Poll};

    use qbase::frame::ReliableFrame;
    use qconnection::GuaranteedFrame;
    use qrecovery::recv::StopSending as _;

    use crate::pipe::Cap;

    let windows: &[u64] = if thorough { &[2, 4, 9, 64] } else { &[4, 9] };
    let mut evals = 0u64;
    let mut outcomes: BTreeMap<String, u64> = BTreeMap::new();
    let mut samples = Vec::new();
    for &w in windows {
        for dir in [Dir::Uni, Dir::Bi] {
            for stop in [false, true] {
                for sent in 1..=w {
                    for read_cap in [1usize, 2, 64] {
                        for reads in 0..=(sent as usize).min(if thorough { 9 } else { 4 }) {
                            for probe_beyond in [false, true] {
                                evals += 1;
                                // (the connection window is out of the way: only the stream limit is judged here)
                                let local = SideCfg { max_data: 1 << 40, bidi_local: w, bidi_remote: w, uni: w, streams_bidi: 2, streams_uni: 2 };
                                let cfg = Cfg { client: SideCfg::roomy(), server: local, cap: 1200, demand_concurrency: false, scripts: [vec![], vec![]], read_caps: vec![], max_packets: 0 };
                                let label = format!("window {w}, {dir:?}, stop={stop}, {sent} byte(s) received, {reads} read(s) of {read_cap}");
                                let rp = json!({"sub": "recv-side-advertised-limit", "window": w, "dir": format!("{dir:?}"), "stop": stop, "sent": sent, "read_cap": read_cap, "reads": reads, "beyond": probe_beyond});
                                let r = panics::catch(|| -> Result<(u64, Result<(), Error>), String> {
                                    let mut ep = Endpoint::new(Role::Server, &cfg);
                                    let sid = StreamId::new(Role::Client, dir, 0);
                                    let f = StreamFrame::new(sid, 0, sent as usize);
                                    ep.peer_stream(f, payload(0, sent as usize)).map_err(|e| format!("legitimate data refused: {e}"))?;
                                    ep.accept_all().map_err(|e| format!("accept failed: {e}"))?;
                                    let mut h = (0..ep.handle_count()).find(|&i| ep.handle_sid(i) == sid).map(|i| ep.take_handle(i)).ok_or("stream not offered")?;
                                    let mut reader = h.reader.take().ok_or("no reader")?;
                                    if stop {
                                        reader.stop(9);
                                    }
                                    let waker = futures::task::noop_waker();
                                    let mut cx = Context::from_waker(&waker);
                                    for _ in 0..reads {
                                        let mut buf = Cap::new(read_cap);
                                        match reader.poll_read(&mut cx, &mut buf) {
                                            Poll::Ready(Ok(())) | Poll::Pending => {}
                                            Poll::Ready(Err(_)) => break,
                                        }
                                    }
                                    // what has this endpoint told the peer about this stream?
                                    let mut advertised = w;
                                    for _ in 0..8 {
                                        let frames = ep.assemble_frames(1200);
                                        if frames.is_empty() {
                                            break;
                                        }
                                        for g in frames {
                                            if let GuaranteedFrame::Reliable(ReliableFrame::StreamCtl(StreamCtlFrame::MaxStreamData(m))) = g {
                                                if m.stream_id() == sid {
                                                    advertised = advertised.max(m.max_stream_data());
                                                }
                                            }
                                        }
                                    }
                                    // the probe: one byte ending at the advertised limit / one beyond it
                                    let end = if probe_beyond { advertised + 1 } else { advertised };
                                    let off = end - 1;
                                    let res = ep.peer_stream(StreamFrame::new(sid, off, 1), payload(off, 1));
                                    Ok((advertised, res))
                                });
                                let (advertised, res) = match r {
                                    Err(p) => {
                                        report.violation(&format!("panic/{}", p.class()), &format!("{label}: panic at {}: {}", p.location, p.message), rp);
                                        continue;
                                    }
                                    Ok(Err(e)) => {
                                        report.violation("machinery/c11-advertised-limit-setup", &format!("{label}: {e}"), rp);
                                        continue;
                                    }
                                    Ok(Ok(x)) => x,
                                };
                                let kind = err_kind(&res);
                                *outcomes.entry(format!("advertised{}{}:{}→{:?}", if advertised > w { ">" } else { "=" }, "window", if probe_beyond { "beyond" } else { "at" }, kind)).or_default() += 1;
                                if samples.len() < 3 && advertised > w {
                                    samples.push(json!({"history": label, "advertised": advertised, "probe_beyond": probe_beyond, "verdict": format!("{kind:?}")}));
                                }
                                if probe_beyond && kind != Some(ErrorKind::FlowControl) {
                                    report.violation(
                                        "c11/recv/beyond-advertised-stream-limit/not-flow-control-error",
                                        &format!("{label}: the endpoint has advertised a stream limit of {advertised} at most, yet a STREAM frame ending at {} was answered with {kind:?} instead of FLOW_CONTROL_ERROR", advertised + 1),
                                        rp,
                                    );
                                } else if !probe_beyond && kind == Some(ErrorKind::FlowControl) {
                                    report.violation(
                                        "c11/recv/within-advertised-stream-limit/flow-control-error",
                                        &format!("{label}: a STREAM frame ending exactly at the advertised stream limit {advertised} was answered with FLOW_CONTROL_ERROR"),
                                        rp,
                                    );
                                }
                            }
                        }
                    }
                }
            }
        }
    }
    let mut extra = serde_json::Map::new();
    extra.insert("outcome_classes".into(), json!(outcomes));
    report.sub(
        "recv-side-advertised-limit",
        Coverage {
            evaluations: evals,
            distinct_nontrivial: outcomes.len() as u64,
            exhaustive: true,
            rule: format!("stream windows {windows:?} × {{uni, bidi}} × {{application called stop() first, not}} × bytes received 1..=window × read buffer {{1,2,64}} × number of reads: the largest MAX_STREAM_DATA this endpoint has put into a frame (or the initial limit) is the limit it enforces — a frame ending one byte beyond it gets FLOW_CONTROL_ERROR, one ending at it does not; distinct = outcome classes"),
            samples,
            extra,
            ..Default::default()
        },
    );
}

pub fn run(args: &Args, c11: bool) -> i32 {
    if args.replay.is_some() {
        println!("replay: peer-frame cases are re-run by `./check {} --only peer`", args.property);
        return 2;
    }
    let mut report = Report::new(args, "model_checking");
    report.assume("one real endpoint; frames are delivered through the real FlowControlledDataStreams (hook verif_flow_controlled_streams)");
    run_part(&mut report, args.thorough, c11);
    if c11 {
        advertised_limit_part(&mut report, args.thorough);
    }
    report.finish()
}
