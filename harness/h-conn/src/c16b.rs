//! More C16 scenarios and the C17b close/fail scenarios (same E2 infrastructure as c16.rs).
use crate::c16::Sc;

/// Further waiter/notifier protocols for C16.
pub fn more_scenarios() -> Vec<Sc> {
    Vec::new()
}

/// C17b: every pending operation ends with the connection error.
pub fn close_scenarios() -> Vec<Sc> {
    Vec::new()
}
