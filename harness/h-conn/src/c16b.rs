//! More C16 scenarios and the C17b close/fail scenarios (same E2 infrastructure as c16.rs).
//!
//! `more_scenarios()` — the waiter/notifier protocols c16.rs does not cover yet: the
//! connection-level `ArcSendWakers::wake_all_by`, the three key cells, the datagram reader, the
//! crypto stream, the remote connection-id cell, the stream writer against STOP_SENDING, the
//! burst loop against MAX_DATA, `accept_bi` / `open_bi` / `open_uni` against the peer's frames and
//! the handshake, and protocols with two waiters.
//!
//! `close_scenarios()` — C17b at component level: application threads hold pending operations,
//! a closer thread calls the `on_conn_error`s of `Components::enter_closing` /
//! `enter_draining` (qconnection/src/lib.rs) in that order — `data_streams`, `datagram_flow`,
//! (`tls_handshake`: no TLS object at this level), `parameters`; the connection-level flow
//! controller is *not* told by qconnection, so it is not told here either. Every pending
//! operation must complete with that error, every later operation must fail with it, and the
//! assemblers must not emit application data any more.
//!
//! `crate::pipe::Endpoint` keeps its flow controller, parameters and send wakers private, so the
//! endpoint is assembled here once more ([`Ep`]) with exactly the construction of
//! `pipe::Endpoint::new` (= `qconnection::builder::init_stream_and_datagram` + `tls_fin_handler`)
//! plus the `DatagramFlow`.
use std::{
    future::Future,
    pin::Pin,
    sync::{Arc, Mutex},
    task::{Context, Poll},
};

use bytes::Bytes;
use futures::task::noop_waker;
use mc_core::sched::{Body, Ctx};
use qbase::{
    cid::ConnectionId,
    error::{Error as QErr, ErrorKind, QuicError},
    frame::{
        CryptoFrame, DatagramFrame, Frame, FrameReader, MaxDataFrame, MaxStreamDataFrame, MaxStreamsFrame, NewConnectionIdFrame,
        StopSendingFrame, StreamCtlFrame, StreamFrame,
        io::ReceiveFrame,
    },
    net::{
        addr::EndpointAddr,
        route::Pathway,
        tx::{ArcSendWaker, ArcSendWakers, Signals},
    },
    packet::{
        keys::{ArcKeys, ArcOneRttKeys, ArcZeroRttKeys},
        signal::SpinBit,
        r#type::{Type, short::OneRtt},
    },
    param::{ArcParameters, ClientParameters, ParameterId, Parameters, ServerParameters},
    role::Role,
    sid::{Dir, StreamId, handy::ConsistentConcurrency},
    varint::VarInt,
};
use qconnection::{ArcReliableFrameDeque, DataStreams, FlowController, StreamReader, StreamWriter};
use qdatagram::{DatagramFlow, DatagramReader, DatagramWriter};
use qrecovery::{crypto::CryptoStream, streams::error::StreamError};
use tokio::io::{AsyncRead, AsyncWrite, ReadBuf};

use crate::{
    c16::{Obs, Sc, body, expect_eq, nobody},
    pipe::{Cap, Cfg, SideCfg},
};

/// The in-process rustls handshake of C06 (its module is private to c06.rs; the file is compiled
/// a second time here).
#[allow(dead_code)]
#[path = "c06/keys.rs"]
mod hs_keys;

// ------------------------------------------------------------------------------------------
// small helpers
// ------------------------------------------------------------------------------------------

fn vi(v: u64) -> VarInt {
    VarInt::from_u64(v).unwrap()
}

fn cid(b: u8) -> ConnectionId {
    ConnectionId::from_slice(&[b; 8])
}

/// The connection error of the close scenarios and what every operation must report.
const CLOSE_REASON: &str = "c17b";
const CLOSE_TAG: &str = "err:NoViablePath/c17b";

fn close_error() -> QErr {
    QuicError::with_default_fty(ErrorKind::NoViablePath, CLOSE_REASON).into()
}

/// The peer's application-level CONNECTION_CLOSE, as `enter_draining` turns it into an error.
fn app_close_error() -> QErr {
    QErr::App(qbase::error::AppError::new(vi(42), "bye"))
}

/// kind + reason of a connection error: what "that error" means in the C17 statement.
fn tag(e: &QErr) -> String {
    match e {
        QErr::Quic(q) => format!("err:{:?}/{}", q.kind(), q.reason()),
        QErr::App(a) => format!("err:app{}/{}", a.error_code(), a.reason()),
    }
}

fn io_tag(e: &std::io::Error) -> String {
    match e.get_ref().and_then(|inner| inner.downcast_ref::<QErr>()) {
        Some(q) => tag(q),
        None => format!("io:{:?}:{e}", e.kind()),
    }
}

fn stream_res<T>(r: &Result<T, StreamError>, ok: impl FnOnce(&T) -> String) -> String {
    match r {
        Ok(v) => ok(v),
        Err(StreamError::Connection(e)) => tag(e),
        Err(StreamError::Reset(x)) => format!("reset{}", x.error_code()),
        Err(StreamError::EosSent) => "eos".into(),
    }
}

fn conn_res<T>(r: &Result<T, QErr>, ok: impl FnOnce(&T) -> String) -> String {
    match r {
        Ok(v) => ok(v),
        Err(e) => tag(e),
    }
}

fn sc(name: &'static str, build: impl Fn() -> (Arc<Obs>, Vec<(String, Body)>) + Send + Sync + 'static, expect: crate::c16::Expect) -> Sc {
    Sc { name, build: Box::new(build), expect, may_block: nobody() }
}

/// `Ctx::block_on` without its two redundant scheduling points: the first poll runs where the
/// caller stands (right after the thread's start or after a `point`, both of which are
/// scheduling decisions already), and a woken task re-polls as soon as it is scheduled again
/// (the sleep itself is the scheduling point). Every order of the polls relative to the other
/// threads' operations is still explored; the schedule count of scenarios with several waiters
/// drops by an order of magnitude.
fn wait<T>(c: &Ctx, label: &str, mut f: impl FnMut(&mut Context<'_>) -> Poll<T>) -> T {
    let waker = c.waker();
    let mut cx = Context::from_waker(&waker);
    loop {
        let seen = c.wake_count();
        match f(&mut cx) {
            Poll::Ready(v) => return v,
            Poll::Pending => {
                c.log(&format!("{label}:pending"));
                c.sleep_until_woken(seen, &format!("{label}:sleep"));
                c.log(&format!("{label}:woken"));
            }
        }
    }
}

fn pathway(n: u16) -> Pathway {
    let a = |p: u16| EndpointAddr::direct(std::net::SocketAddr::from(([127, 0, 0, 1], p)));
    Pathway::new(a(1000 + n), a(2000 + n))
}

fn parse(bytes: &[u8]) -> Vec<Frame> {
    let ty = Type::Short(OneRtt(SpinBit::Zero));
    let mut out = Vec::new();
    for item in FrameReader::new(Bytes::copy_from_slice(bytes), ty) {
        match item {
            Ok((f, _)) => out.push(f),
            Err(_) => break,
        }
    }
    out
}

// ------------------------------------------------------------------------------------------
// endpoint (construction of pipe::Endpoint::new, all parts reachable)
// ------------------------------------------------------------------------------------------

fn set_common<R: qbase::role::IntoRole + Default>(p: &mut qbase::param::core::Parameters<R>, c: &SideCfg) {
    p.set(ParameterId::InitialMaxData, vi(c.max_data)).unwrap();
    p.set(ParameterId::InitialMaxStreamDataBidiLocal, vi(c.bidi_local)).unwrap();
    p.set(ParameterId::InitialMaxStreamDataBidiRemote, vi(c.bidi_remote)).unwrap();
    p.set(ParameterId::InitialMaxStreamDataUni, vi(c.uni)).unwrap();
    p.set(ParameterId::InitialMaxStreamsBidi, vi(c.streams_bidi)).unwrap();
    p.set(ParameterId::InitialMaxStreamsUni, vi(c.streams_uni)).unwrap();
}

fn client_params(c: &SideCfg) -> ClientParameters {
    let mut p = ClientParameters::default();
    set_common(&mut p, c);
    p.set(ParameterId::InitialSourceConnectionId, cid(1)).unwrap();
    p
}

fn server_params(c: &SideCfg) -> ServerParameters {
    let mut p = ServerParameters::default();
    set_common(&mut p, c);
    p.set(ParameterId::InitialSourceConnectionId, cid(2)).unwrap();
    p.set(ParameterId::OriginalDestinationConnectionId, cid(9)).unwrap();
    p
}

type RxData = Box<dyn Fn((StreamFrame, Bytes)) -> Result<(), QErr> + Send + Sync>;
type RxCtl = Box<dyn Fn(StreamCtlFrame) -> Result<(), QErr> + Send + Sync>;

struct Ep {
    remote_cfg: SideCfg,
    wakers: ArcSendWakers,
    reliable: ArcReliableFrameDeque,
    flow: FlowController,
    streams: DataStreams,
    params: ArcParameters,
    dgram: DatagramFlow,
    rx_data: RxData,
    rx_ctl: RxCtl,
}

impl Ep {
    /// `handshake_done = false`: the state before the peer's transport parameters arrived (a
    /// client that remembers nothing): `remote_ready()` is pending, no stream can be opened.
    fn new(role: Role, cfg: &Cfg, handshake_done: bool) -> Ep {
        let (local, remote) = match role {
            Role::Client => (&cfg.client, &cfg.server),
            Role::Server => (&cfg.server, &cfg.client),
        };
        let wakers = ArcSendWakers::default();
        let reliable = ArcReliableFrameDeque::with_capacity_and_wakers(8, wakers.clone());
        let ctrl: Box<dyn qbase::sid::ControlStreamsConcurrency> = Box::new(ConsistentConcurrency::new(local.streams_bidi, local.streams_uni));
        let flow = FlowController::new(0, local.max_data, reliable.clone(), wakers.clone());
        let (streams, params) = match role {
            Role::Client => {
                let lp = client_params(local);
                let rp0 = ServerParameters::default();
                let streams = DataStreams::new(Role::Client, &lp, &rp0, ctrl, reliable.clone(), wakers.clone(), None);
                (streams, ArcParameters::from(Parameters::new_client(lp, None, cid(9))))
            }
            Role::Server => {
                let lp = server_params(local);
                let rp0 = ClientParameters::default();
                let streams = DataStreams::new(Role::Server, &lp, &rp0, ctrl, reliable.clone(), wakers.clone(), None);
                (streams, ArcParameters::from(Parameters::new_server(lp)))
            }
        };
        let fc = qconnection::space::verif_flow_controlled_streams(streams.clone(), flow.clone());
        let fc2 = fc.clone();
        let dgram = DatagramFlow::new(1200, wakers.clone());
        let ep = Ep {
            remote_cfg: remote.clone(),
            wakers,
            reliable,
            flow,
            streams,
            params,
            dgram,
            rx_data: Box::new(move |f| ReceiveFrame::<(StreamFrame, Bytes)>::recv_frame(&fc, f)),
            rx_ctl: Box::new(move |f| ReceiveFrame::<StreamCtlFrame>::recv_frame(&fc2, f)),
        };
        if handshake_done {
            ep.recv_remote_params(role);
            ep.apply_remote_params(role);
        }
        ep
    }

    /// The TLS layer hands over the peer's transport parameters, the first packet authenticates
    /// the peer's connection id.
    fn recv_remote_params(&self, role: Role) {
        if let Ok(mut g) = self.params.lock_guard() {
            match role {
                Role::Client => {
                    let _ = g.recv_remote_params(server_params(&self.remote_cfg));
                    let _ = g.initial_scid_from_peer_need_equal(cid(2));
                }
                Role::Server => {
                    let _ = g.recv_remote_params(client_params(&self.remote_cfg));
                    let _ = g.initial_scid_from_peer_need_equal(cid(1));
                }
            }
        }
    }

    /// `tls_fin_handler`: `revise_params` / `revise_max_data`.
    fn apply_remote_params(&self, role: Role) {
        let Ok(g) = self.params.lock_guard() else { return };
        match role {
            Role::Client => {
                let rp = g.server().expect("server parameters").clone();
                drop(g);
                self.streams.revise_params(false, rp.as_ref());
            }
            Role::Server => {
                let rp = g.client().expect("client parameters").clone();
                drop(g);
                self.streams.revise_params(false, rp.as_ref());
            }
        }
        self.flow.sender.revise_max_data(false, self.remote_cfg.max_data);
    }

    fn peer_stream(&self, f: StreamFrame, data: Bytes) -> Result<(), QErr> {
        (self.rx_data)((f, data))
    }

    fn peer_ctl(&self, f: StreamCtlFrame) -> Result<(), QErr> {
        (self.rx_ctl)(f)
    }

    fn peer_max_data(&self, v: u64) {
        let _ = self.flow.sender.recv_frame(MaxDataFrame::new(vi(v)));
    }

    /// One packet as the burst loop of a path fills it: reliable frames, stream data, datagrams.
    /// Returns the parsed frames and the signals the stream assembler refused with (if it did).
    fn assemble(&self, cap: usize) -> (Vec<Frame>, Option<Signals>) {
        let mut pkt = Cap::new(cap);
        let _ = self.reliable.try_load_frames_into(&mut pkt);
        let refused = self.streams.try_load_data_into(&mut pkt, &self.flow.sender, false).err();
        let _ = self.dgram.try_load_data_into(&mut pkt);
        (parse(pkt.bytes()), refused)
    }

    /// Only the two application-data assemblers; the number of bytes they put into a packet.
    fn load_app_data(&self) -> usize {
        let mut pkt = Cap::new(1200);
        let _ = self.streams.try_load_data_into(&mut pkt, &self.flow.sender, false);
        let _ = self.dgram.try_load_data_into(&mut pkt);
        pkt.len()
    }

    /// The acknowledgement feedback of qconnection::space::AckDataSpace.
    fn ack(&self, frames: Vec<Frame>) {
        for f in frames {
            match f {
                Frame::Stream(sf, _) => self.streams.on_data_acked(sf),
                Frame::StreamCtl(StreamCtlFrame::ResetStream(r)) => self.streams.on_reset_acked(r),
                _ => {}
            }
        }
    }

    fn open_bi_now(&self) -> Option<(StreamId, StreamReader, StreamWriter)> {
        let w = noop_waker();
        let mut cx = Context::from_waker(&w);
        let mut f = self.streams.open_bi(&self.params);
        match Pin::new(&mut f).poll(&mut cx) {
            Poll::Ready(Ok(Some((sid, (r, w))))) => Some((sid, r, w)),
            _ => None,
        }
    }

    fn accept_uni_now(&self) -> Option<(StreamId, StreamReader)> {
        let w = noop_waker();
        let mut cx = Context::from_waker(&w);
        let mut f = self.streams.accept_uni();
        match Pin::new(&mut f).poll(&mut cx) {
            Poll::Ready(Ok(x)) => Some(x),
            _ => None,
        }
    }
}

fn side(bidi_remote: u64, uni: u64, streams_bidi: u64, streams_uni: u64, max_data: u64) -> SideCfg {
    SideCfg { max_data, bidi_local: 100, bidi_remote, uni, streams_bidi, streams_uni }
}

fn cfg_of(client: SideCfg, server: SideCfg) -> Cfg {
    Cfg { client, server, cap: 1200, demand_concurrency: false, scripts: [vec![], vec![]], read_caps: vec![], max_packets: 0 }
}

fn roomy() -> SideCfg {
    side(100, 100, 4, 4, 1 << 20)
}

fn write_now(w: &mut StreamWriter, data: &'static [u8]) -> bool {
    let wk = noop_waker();
    let mut cx = Context::from_waker(&wk);
    matches!(w.poll_write(&mut cx, Bytes::from_static(data)), Poll::Ready(Ok(())))
}

// ------------------------------------------------------------------------------------------
// C16: further protocols
// ------------------------------------------------------------------------------------------

/// Further waiter/notifier protocols for C16.
pub fn more_scenarios() -> Vec<Sc> {
    let mut v: Vec<Sc> = Vec::new();
    send_wakers(&mut v);
    keys(&mut v);
    datagram(&mut v);
    crypto(&mut v);
    remote_cid(&mut v);
    writer_vs_stop_sending(&mut v);
    writer_vs_ack(&mut v);
    flow_blocked_burst(&mut v);
    stream_window_blocked_burst(&mut v);
    accept_and_open(&mut v);
    two_waiters(&mut v);
    v
}

fn send_wakers(v: &mut Vec<Sc>) {
    // two paths registered at the connection-level wakers, one sleeping sender per path
    v.push(sc(
        "sendwakers/wake_all_by-two-paths",
        || {
            let obs = Arc::new(Obs::default());
            let all = ArcSendWakers::new();
            let (wa, wb) = (ArcSendWaker::new(), ArcSendWaker::new());
            all.insert(pathway(1), &wa);
            all.insert(pathway(2), &wb);
            let (oa, ob) = (obs.clone(), obs.clone());
            (
                obs,
                vec![
                    ("path-a".into(), body(move |c| {
                        let mut f = Box::pin(wa.wait_for(Signals::TRANSPORT));
                        wait(c, "a.wait_for(TRANSPORT)", |cx| f.as_mut().poll(cx));
                        oa.set("a", "woken");
                    })),
                    ("path-b".into(), body(move |c| {
                        let mut f = Box::pin(wb.wait_for(Signals::TRANSPORT | Signals::FLOW_CONTROL));
                        wait(c, "b.wait_for(TRANSPORT|FLOW_CONTROL)", |cx| f.as_mut().poll(cx));
                        ob.set("b", "woken");
                    })),
                    ("notifier".into(), body(move |c| {
                        c.point("wake_all_by(CONGESTION)");
                        all.wake_all_by(Signals::CONGESTION);
                        c.point("wake_all_by(TRANSPORT)");
                        all.wake_all_by(Signals::TRANSPORT);
                    })),
                ],
            )
        },
        Box::new(|o| match (o.get("a").as_deref(), o.get("b").as_deref()) {
            (Some("woken"), Some("woken")) => Ok("both-woken".into()),
            other => Err(format!("{other:?}")),
        }),
    ));
    // two notifiers with different signals racing through the round-robin `last_woken` cursor;
    // the sleeper sits on the second path, the first path is registered but idle
    v.push(sc(
        "sendwakers/two-notifiers-two-paths",
        || {
            let obs = Arc::new(Obs::default());
            let all = ArcSendWakers::new();
            let (wa, wb) = (ArcSendWaker::new(), ArcSendWaker::new());
            all.insert(pathway(1), &wa);
            all.insert(pathway(2), &wb);
            let (all1, all2) = (all.clone(), all.clone());
            let ob = obs.clone();
            (
                obs,
                vec![
                    ("path-b".into(), body(move |c| {
                        let _idle = wa;
                        let mut f = Box::pin(wb.wait_for(Signals::FLOW_CONTROL));
                        wait(c, "b.wait_for(FLOW_CONTROL)", |cx| f.as_mut().poll(cx));
                        ob.set("b", "woken");
                    })),
                    ("writer".into(), body(move |c| {
                        c.point("wake_all_by(WRITTEN)");
                        all1.wake_all_by(Signals::WRITTEN);
                        c.point("wake_all_by(WRITTEN) again");
                        all1.wake_all_by(Signals::WRITTEN);
                    })),
                    ("max-data".into(), body(move |c| {
                        c.point("wake_all_by(FLOW_CONTROL)");
                        all2.wake_all_by(Signals::FLOW_CONTROL);
                    })),
                ],
            )
        },
        expect_eq("b", &["woken"]),
    ));
}

/// what = 0: set_keys, 1: invalid, 2: set_keys then invalid (one notifier, in that order — the
/// opposite order is a documented misuse that panics)
fn keys(v: &mut Vec<Sc>) {
    const DCID: [u8; 8] = [0x83, 0x94, 0xc8, 0xf0, 0x3e, 0x51, 0x57, 0x08];
    for (name, what) in [
        ("keys/long/get_remote-vs-set_keys", 0u8),
        ("keys/long/get_remote-vs-invalid", 1),
        ("keys/long/get_remote-vs-set-then-invalid", 2),
    ] {
        v.push(sc(
            name,
            move || {
                let obs = Arc::new(Obs::default());
                let k = ArcKeys::new_pending();
                let (k1, k2) = (k.clone(), k.clone());
                let o = obs.clone();
                (
                    obs,
                    vec![
                        ("decrypt".into(), body(move |c| {
                            let mut f = k1.get_remote_keys();
                            let r = c.block_on("get_remote_keys", |cx| Pin::new(&mut f).poll(cx));
                            o.set("waiter", if r.is_some() { "keys" } else { "none" });
                        })),
                        ("tls".into(), body(move |c| {
                            if what != 1 {
                                c.point("set_keys");
                                k2.set_keys(hs_keys::initial_keys(&DCID, rustls::Side::Client));
                            }
                            if what != 0 {
                                c.point("invalid");
                                let _ = k2.invalid();
                            }
                        })),
                    ],
                )
            },
            expect_eq("waiter", match what { 0 => &["keys"], 1 => &["none"], _ => &["keys", "none"] }),
        ));
    }
    for (name, what) in [
        ("keys/zero-rtt/get_decrypt-vs-set_keys", 0u8),
        ("keys/zero-rtt/get_decrypt-vs-invalid", 1),
        ("keys/zero-rtt/get_decrypt-vs-set-then-invalid", 2),
    ] {
        v.push(sc(
            name,
            move || {
                let obs = Arc::new(Obs::default());
                let k = ArcZeroRttKeys::new_pending(Role::Server);
                let (k1, k2) = (k.clone(), k.clone());
                let o = obs.clone();
                (
                    obs,
                    vec![
                        ("decrypt".into(), body(move |c| {
                            let mut f = k1.get_decrypt_keys().expect("a server decrypts 0-RTT");
                            let r = c.block_on("get_decrypt_keys", |cx| Pin::new(&mut f).poll(cx));
                            o.set("waiter", if r.is_some() { "keys" } else { "none" });
                        })),
                        ("tls".into(), body(move |c| {
                            if what != 1 {
                                c.point("set_keys");
                                k2.set_keys(hs_keys::initial_keys(&DCID, rustls::Side::Server).remote);
                            }
                            if what != 0 {
                                c.point("invalid");
                                let _ = k2.invalid();
                            }
                        })),
                    ],
                )
            },
            expect_eq("waiter", match what { 0 => &["keys"], 1 => &["none"], _ => &["keys", "none"] }),
        ));
    }
    for (name, what) in [
        ("keys/one-rtt/get_remote-vs-set_keys", 0u8),
        ("keys/one-rtt/get_remote-vs-invalid", 1),
        ("keys/one-rtt/get_remote-vs-set-then-invalid", 2),
    ] {
        v.push(sc(
            name,
            move || {
                let obs = Arc::new(Obs::default());
                let k = ArcOneRttKeys::new_pending();
                let (k1, k2) = (k.clone(), k.clone());
                let o = obs.clone();
                // a real handshake per execution: rustls key objects are not clonable
                let material = if what != 1 {
                    let mut hs = hs_keys::handshake(rustls::CipherSuite::TLS13_AES_128_GCM_SHA256, false).expect("in-process handshake");
                    hs.client.one_rtt.take()
                } else {
                    None
                };
                (
                    obs,
                    vec![
                        ("decrypt".into(), body(move |c| {
                            let mut f = k1.get_remote_keys();
                            let r = c.block_on("get_remote_keys", |cx| Pin::new(&mut f).poll(cx));
                            o.set("waiter", if r.is_some() { "keys" } else { "none" });
                        })),
                        ("tls".into(), body(move |c| {
                            if let Some((keys, secrets)) = material {
                                c.point("set_keys");
                                k2.set_keys(keys, secrets);
                            }
                            if what != 0 {
                                c.point("invalid");
                                let _ = k2.invalid();
                            }
                        })),
                    ],
                )
            },
            expect_eq("waiter", match what { 0 => &["keys"], 1 => &["none"], _ => &["keys", "none"] }),
        ));
    }
}

fn datagram(v: &mut Vec<Sc>) {
    // what: bit 0 = a datagram arrives, bit 1 = connection error
    for (name, what) in [
        ("datagram/recv-vs-recv_datagram", 1u8),
        ("datagram/recv-vs-conn-error", 2),
        ("datagram/recv-vs-datagram-and-conn-error", 3),
    ] {
        v.push(sc(
            name,
            move || {
                let obs = Arc::new(Obs::default());
                let flow = DatagramFlow::new(1200, ArcSendWakers::new());
                let mut reader = flow.reader().expect("reader");
                let (f1, f2) = (flow.clone(), flow.clone());
                let o = obs.clone();
                let mut t: Vec<(String, Body)> = vec![("app".into(), body(move |c| {
                    let mut fut = reader.recv();
                    let r = c.block_on("recv", |cx| Pin::new(&mut fut).poll(cx));
                    o.set("app", match r {
                        Ok(b) => format!("ok:{}", String::from_utf8_lossy(&b)),
                        Err(e) => io_tag(&e),
                    });
                }))];
                if what & 1 != 0 {
                    t.push(("peer".into(), body(move |c| {
                        c.point("recv_datagram");
                        let _ = f1.recv_frame((DatagramFrame::new(true, vi(3)), Bytes::from_static(b"abc")));
                    })));
                }
                if what & 2 != 0 {
                    t.push(("closer".into(), body(move |c| {
                        c.point("on_conn_error");
                        f2.on_conn_error(&close_error());
                    })));
                }
                (obs, t)
            },
            expect_eq("app", match what { 1 => &["ok:abc"], 2 => &[CLOSE_TAG], _ => &["ok:abc", CLOSE_TAG] }),
        ));
    }
}

fn crypto(v: &mut Vec<Sc>) {
    v.push(sc(
        "crypto/read-vs-recv_frame",
        || {
            let obs = Arc::new(Obs::default());
            let cs = CryptoStream::new(ArcSendWakers::new());
            let mut reader = cs.reader();
            let incoming = cs.incoming();
            let o = obs.clone();
            (
                obs,
                vec![
                    ("tls".into(), body(move |c| {
                        let mut buf = [0u8; 8];
                        let mut rb = ReadBuf::new(&mut buf);
                        let r = c.block_on("poll_read", |cx| Pin::new(&mut reader).poll_read(cx, &mut rb));
                        o.set("tls", match r {
                            Ok(()) => format!("read:{}", String::from_utf8_lossy(rb.filled())),
                            Err(e) => format!("err:{e}"),
                        });
                    })),
                    ("space".into(), body(move |c| {
                        c.point("recv_frame");
                        let _ = incoming.recv_frame((CryptoFrame::new(vi(0), vi(2)), Bytes::from_static(b"hi")));
                    })),
                ],
            )
        },
        expect_eq("tls", &["read:hi"]),
    ));
    // the second half arrives first: it makes nothing readable, only the first half does
    v.push(sc(
        "crypto/read-vs-out-of-order-frames",
        || {
            let obs = Arc::new(Obs::default());
            let cs = CryptoStream::new(ArcSendWakers::new());
            let mut reader = cs.reader();
            let (i1, i2) = (cs.incoming(), cs.incoming());
            let o = obs.clone();
            (
                obs,
                vec![
                    ("tls".into(), body(move |c| {
                        let mut got = Vec::new();
                        let mut rounds = 0;
                        while got.len() < 4 && rounds < 4 {
                            rounds += 1;
                            let mut buf = [0u8; 8];
                            let mut rb = ReadBuf::new(&mut buf);
                            let r = c.block_on("poll_read", |cx| Pin::new(&mut reader).poll_read(cx, &mut rb));
                            if r.is_err() || rb.filled().is_empty() {
                                break;
                            }
                            got.extend_from_slice(rb.filled());
                        }
                        o.set("tls", format!("read:{}", String::from_utf8_lossy(&got)));
                    })),
                    ("packet-1".into(), body(move |c| {
                        c.point("recv_frame[0..2)");
                        let _ = i1.recv_frame((CryptoFrame::new(vi(0), vi(2)), Bytes::from_static(b"he")));
                    })),
                    ("packet-2".into(), body(move |c| {
                        c.point("recv_frame[2..4)");
                        let _ = i2.recv_frame((CryptoFrame::new(vi(2), vi(2)), Bytes::from_static(b"lo")));
                    })),
                ],
            )
        },
        expect_eq("tls", &["read:helo"]),
    ));
    // AsyncWrite::poll_flush completes when everything written has been acknowledged
    v.push(sc(
        "crypto/flush-vs-ack",
        || {
            let obs = Arc::new(Obs::default());
            let cs = CryptoStream::new(ArcSendWakers::new());
            let mut writer = cs.writer();
            let outgoing = cs.outgoing();
            {
                let wk = noop_waker();
                let mut cx = Context::from_waker(&wk);
                let r = Pin::new(&mut writer).poll_write(&mut cx, b"abc");
                assert!(matches!(r, Poll::Ready(Ok(3))), "crypto write");
            }
            let (o, o2) = (obs.clone(), obs.clone());
            (
                obs,
                vec![
                    ("tls".into(), body(move |c| {
                        let r = c.block_on("poll_flush", |cx| Pin::new(&mut writer).poll_flush(cx));
                        o.set("tls", if r.is_ok() { "flushed" } else { "err" });
                    })),
                    ("space".into(), body(move |c| {
                        c.point("try_load_data_into");
                        let mut pkt = Cap::new(1200);
                        let _ = outgoing.try_load_data_into(&mut pkt, false);
                        let frames = parse(pkt.bytes());
                        c.log(&format!("try_load_data_into: {} frame(s)", frames.len()));
                        let mut acked = 0;
                        for f in frames {
                            if let Frame::Crypto(cf, _) = f {
                                c.point("on_data_acked");
                                outgoing.on_data_acked(&cf);
                                c.log(&format!("on_data_acked({:?})", cf.range()));
                                acked += cf.range().end - cf.range().start;
                            }
                        }
                        o2.set("acked", acked.to_string());
                    })),
                ],
            )
        },
        Box::new(|o| {
            // non-vacuity: the three bytes were sent and acknowledged in every execution
            if o.get("acked").as_deref() != Some("3") {
                return Err(format!("harness: acknowledged {:?} bytes instead of 3", o.get("acked")));
            }
            match o.get("tls").as_deref() {
                Some("flushed") => Ok("flushed".into()),
                other => Err(format!("tls = {other:?}")),
            }
        }),
    ));
}

fn remote_cid(v: &mut Vec<Sc>) {
    // what: bit 0 = NEW_CONNECTION_ID(seq 1) arrives, bit 1 = the path is abandoned (retire)
    for (name, what) in [
        ("remote-cid/borrow-vs-new-connection-id", 1u8),
        ("remote-cid/borrow-vs-retire", 2),
        ("remote-cid/borrow-vs-new-connection-id-and-retire", 3),
    ] {
        v.push(sc(
            name,
            move || {
                let obs = Arc::new(Obs::default());
                let reliable = ArcReliableFrameDeque::with_capacity_and_wakers(8, ArcSendWakers::new());
                let remote = qconnection::ArcRemoteCids::new(8, reliable);
                // the handshake path owns sequence number 0; the second path has to wait
                let cell0 = remote.apply_dcid();
                remote.apply_initial_dcid(cid(0xa0), &cell0);
                let cell1 = remote.apply_dcid();
                let cell1b = cell1.clone();
                let tx = ArcSendWaker::new();
                let o = obs.clone();
                let mut t: Vec<(String, Body)> = vec![("path-1".into(), body(move |c| {
                    // the burst loop of the path: the attempt registers the path's send waker in
                    // the cell, then the task waits for the signal (a scheduling point between
                    // the two: that is the window a wake-up can fall into); once woken it
                    // tries again at once
                    let got = loop {
                        match cell1.borrow_cid(tx.clone()) {
                            Ok(Some(id)) => break format!("id:{:02x}", id[0]),
                            Ok(None) => break "retired".to_string(),
                            Err(signals) => {
                                c.point("wait_for(CONNECTION_ID)");
                                let mut f = Box::pin(tx.wait_for(signals));
                                wait(c, "wait_for(CONNECTION_ID)", |cx| f.as_mut().poll(cx));
                            }
                        }
                    };
                    o.set("path-1", got);
                    drop(cell0);
                }))];
                if what & 1 != 0 {
                    t.push(("peer".into(), body(move |c| {
                        c.point("NEW_CONNECTION_ID(1)");
                        let _ = remote.recv_frame(NewConnectionIdFrame::new(cid(0xa1), vi(1), vi(0)));
                    })));
                }
                if what & 2 != 0 {
                    t.push(("path-manager".into(), body(move |c| {
                        c.point("retire");
                        cell1b.retire();
                    })));
                }
                (obs, t)
            },
            expect_eq("path-1", match what { 1 => &["id:a1"], 2 => &["retired"], _ => &["id:a1", "retired"] }),
        ));
    }
}

fn writer_vs_stop_sending(v: &mut Vec<Sc>) {
    // which: 0 = shutdown, 1 = flush, 2 = write blocked on the stream window
    for (name, which) in [
        ("writer/shutdown-vs-stop-sending", 0u8),
        ("writer/flush-vs-stop-sending", 1),
        ("writer/blocked-write-vs-stop-sending", 2),
    ] {
        v.push(sc(
            name,
            move || {
                let obs = Arc::new(Obs::default());
                // the client's send window on its own bidi streams is the server's bidi_remote
                let cfg = cfg_of(roomy(), side(if which == 2 { 2 } else { 100 }, 100, 4, 4, 1 << 20));
                let ep = Arc::new(Ep::new(Role::Client, &cfg, true));
                let (sid, _reader, mut writer) = ep.open_bi_now().expect("open");
                assert!(write_now(&mut writer, b"ab"), "first write");
                let ep2 = ep.clone();
                let o = obs.clone();
                (
                    obs,
                    vec![
                        ("app".into(), body(move |c| {
                            let _keep = _reader;
                            let r = match which {
                                0 => c.block_on("shutdown", |cx| writer.poll_shutdown(cx)),
                                1 => c.block_on("flush", |cx| writer.poll_flush(cx)),
                                _ => c.block_on("write", |cx| writer.poll_write(cx, Bytes::from_static(b"cd"))),
                            };
                            o.set("app", stream_res(&r, |_| "ok".into()));
                        })),
                        ("peer".into(), body(move |c| {
                            c.point("STOP_SENDING");
                            let _ = ep2.peer_ctl(StreamCtlFrame::StopSending(StopSendingFrame::new(sid, vi(7))));
                        })),
                    ],
                )
            },
            // nothing is ever acknowledged and the window never grows: the only way out is the reset
            expect_eq("app", &["reset7"]),
        ));
    }
}

fn writer_vs_ack(v: &mut Vec<Sc>) {
    // the data (and the FIN) is in flight when the application starts to wait; the single
    // acknowledgement must release it (c16.rs has the variant with a free-running transport
    // thread, where the application may legitimately keep waiting)
    for (name, shutdown) in [("writer/flush-vs-ack-of-sent-data", false), ("writer/shutdown-vs-ack-of-fin", true)] {
        v.push(sc(
            name,
            move || {
                let obs = Arc::new(Obs::default());
                let cfg = cfg_of(roomy(), roomy());
                let ep = Arc::new(Ep::new(Role::Client, &cfg, true));
                let (_sid, reader, mut writer) = ep.open_bi_now().expect("open");
                assert!(write_now(&mut writer, b"ab"), "write");
                if shutdown {
                    let wk = noop_waker();
                    let mut cx = Context::from_waker(&wk);
                    assert!(writer.poll_shutdown(&mut cx).is_pending(), "shutdown completes only when acknowledged");
                }
                let (frames, _) = ep.assemble(1200);
                assert!(frames.iter().any(|f| matches!(f, Frame::Stream(..))), "the data was sent");
                let o = obs.clone();
                (
                    obs,
                    vec![
                        ("app".into(), body(move |c| {
                            let _keep = reader;
                            let r = if shutdown {
                                c.block_on("shutdown", |cx| writer.poll_shutdown(cx))
                            } else {
                                c.block_on("flush", |cx| writer.poll_flush(cx))
                            };
                            o.set("app", stream_res(&r, |_| "ok".into()));
                        })),
                        ("space".into(), body(move |c| {
                            c.point("ack");
                            ep.ack(frames);
                        })),
                    ],
                )
            },
            expect_eq("app", &["ok"]),
        ));
    }
}

fn flow_blocked_burst(v: &mut Vec<Sc>) {
    // `poll_write` is limited by the *stream* window only; the connection window is charged by
    // the assembler, and the task that sleeps on it is a path's burst loop:
    // `try_load_data_into → Err(signals) → wait_for(signals)`, woken by MAX_DATA.
    v.push(sc(
        "sender/flow-blocked-load-vs-max-data",
        || {
            let obs = Arc::new(Obs::default());
            let cfg = cfg_of(roomy(), side(100, 100, 4, 4, 2));
            let ep = Arc::new(Ep::new(Role::Client, &cfg, true));
            let (_sid, reader, mut writer) = ep.open_bi_now().expect("open");
            assert!(write_now(&mut writer, b"abcd"), "write");
            let tx = ArcSendWaker::new();
            ep.wakers.insert(pathway(1), &tx);
            let ep2 = ep.clone();
            let o = obs.clone();
            (
                obs,
                vec![
                    ("burst".into(), body(move |c| {
                        let _keep = (reader, writer);
                        let mut sent = 0usize;
                        let mut rounds = 0;
                        while sent < 4 && rounds < 8 {
                            rounds += 1;
                            c.point("try_load_data_into");
                            let (frames, refused) = ep.assemble(1200);
                            for f in &frames {
                                if let Frame::Stream(_, d) = f {
                                    sent += d.len();
                                }
                            }
                            if sent >= 4 {
                                break;
                            }
                            if let Some(signals) = refused {
                                let mut f = Box::pin(tx.wait_for(signals));
                                c.block_on("wait_for", |cx| f.as_mut().poll(cx));
                            }
                        }
                        o.set("burst", format!("sent{sent}"));
                    })),
                    ("peer".into(), body(move |c| {
                        c.point("MAX_DATA(100)");
                        ep2.peer_max_data(100);
                    })),
                ],
            )
        },
        expect_eq("burst", &["sent4"]),
    ));
}

fn stream_window_blocked_burst(v: &mut Vec<Sc>) {
    // The stream-level twin of the scenario above: one write overshoots the peer's *stream*
    // window, the burst loop sends what the window allows and sleeps on the refused signals;
    // MAX_STREAM_DATA that makes the buffered tail sendable must wake it. (Two shapes: the
    // sender is still Ready — nothing sent yet when the write happens — and already Sending.)
    for (name, first) in [("sender/stream-window-blocked-load-vs-max-stream-data", &b""[..]), ("sender/stream-window-blocked-load-vs-max-stream-data/sending", &b"a"[..])] {
        let first: &'static [u8] = first;
        v.push(sc(
            name,
            move || {
                let obs = Arc::new(Obs::default());
                // the server lets the client send 2 bytes on a client-initiated bidi stream
                let cfg = cfg_of(roomy(), side(2, 2, 4, 4, 1 << 20));
                let ep = Arc::new(Ep::new(Role::Client, &cfg, true));
                let (sid, reader, mut writer) = ep.open_bi_now().expect("open");
                let mut want = 4usize;
                if !first.is_empty() {
                    // put the sender into the Sending state first
                    assert!(write_now(&mut writer, first), "first write");
                    let (frames, _) = ep.assemble(1200);
                    assert!(frames.iter().any(|f| matches!(f, Frame::Stream(..))), "first byte sent");
                    want = 5 - first.len();
                }
                assert!(write_now(&mut writer, b"bcde"), "write beyond the window");
                let tx = ArcSendWaker::new();
                ep.wakers.insert(pathway(1), &tx);
                let ep2 = ep.clone();
                let o = obs.clone();
                (
                    obs,
                    vec![
                        ("burst".into(), body(move |c| {
                            let _keep = (reader, writer);
                            let mut sent = 0usize;
                            let mut rounds = 0;
                            while sent < want && rounds < 8 {
                                rounds += 1;
                                c.point("try_load_data_into");
                                let (frames, refused) = ep.assemble(1200);
                                for f in &frames {
                                    if let Frame::Stream(_, d) = f {
                                        sent += d.len();
                                    }
                                }
                                if sent >= want {
                                    break;
                                }
                                if let Some(signals) = refused {
                                    let mut f = Box::pin(tx.wait_for(signals));
                                    c.block_on("wait_for", |cx| f.as_mut().poll(cx));
                                }
                            }
                            o.set("burst", if sent >= want { "all-sent".to_string() } else { format!("sent{sent}of{want}") });
                        })),
                        ("peer".into(), body(move |c| {
                            c.point("MAX_STREAM_DATA(100)");
                            let _ = ep2.peer_ctl(StreamCtlFrame::MaxStreamData(MaxStreamDataFrame::new(sid, vi(100))));
                        })),
                    ],
                )
            },
            expect_eq("burst", &["all-sent"]),
        ));
    }
}

fn accept_and_open(v: &mut Vec<Sc>) {
    v.push(sc(
        "listener/accept-bi-vs-peer-open",
        || {
            let obs = Arc::new(Obs::default());
            let cfg = cfg_of(roomy(), roomy());
            let ep = Arc::new(Ep::new(Role::Server, &cfg, true));
            let ep2 = ep.clone();
            let o = obs.clone();
            (
                obs,
                vec![
                    ("app".into(), body(move |c| {
                        let mut f = ep.streams.accept_bi(&ep.params);
                        let r = c.block_on("accept_bi", |cx| Pin::new(&mut f).poll(cx));
                        o.set("app", conn_res(&r, |(sid, _)| format!("accepted:{}", u64::from(*sid))));
                    })),
                    ("peer".into(), body(move |c| {
                        c.point("STREAM(client bi 0)");
                        let _ = ep2.peer_stream(StreamFrame::new(StreamId::new(Role::Client, Dir::Bi, 0), 0, 1), Bytes::from_static(b"x"));
                    })),
                ],
            )
        },
        expect_eq("app", &["accepted:0"]),
    ));
    for (name, bi) in [("opener/open-bi-on-stream-limit-vs-max-streams", true), ("opener/open-uni-on-stream-limit-vs-max-streams", false)] {
        v.push(sc(
            name,
            move || {
                let obs = Arc::new(Obs::default());
                // the server allows no stream at all
                let cfg = cfg_of(roomy(), side(100, 100, 0, 0, 1 << 20));
                let ep = Arc::new(Ep::new(Role::Client, &cfg, true));
                let ep2 = ep.clone();
                let o = obs.clone();
                (
                    obs,
                    vec![
                        ("app".into(), body(move |c| {
                            let got = if bi {
                                let mut f = ep.streams.open_bi(&ep.params);
                                let r = c.block_on("open_bi", |cx| Pin::new(&mut f).poll(cx));
                                conn_res(&r, |s| s.as_ref().map(|(sid, _)| format!("opened:{}", u64::from(*sid))).unwrap_or("exhausted".into()))
                            } else {
                                let mut f = ep.streams.open_uni(&ep.params);
                                let r = c.block_on("open_uni", |cx| Pin::new(&mut f).poll(cx));
                                conn_res(&r, |s| s.as_ref().map(|(sid, _)| format!("opened:{}", u64::from(*sid))).unwrap_or("exhausted".into()))
                            };
                            o.set("app", got);
                        })),
                        ("peer".into(), body(move |c| {
                            c.point("MAX_STREAMS(1)");
                            let _ = ep2.peer_ctl(StreamCtlFrame::MaxStreams(MaxStreamsFrame::with(if bi { Dir::Bi } else { Dir::Uni }, vi(1))));
                        })),
                    ],
                )
            },
            expect_eq("app", if bi { &["opened:0"] } else { &["opened:2"] }),
        ));
    }
    // a stream opened before the handshake finished waits twice: for the peer's parameters,
    // then for the stream limit they carry (applied by `revise_params`)
    v.push(sc(
        "opener/open-bi-vs-params-then-revise",
        || {
            let obs = Arc::new(Obs::default());
            let cfg = cfg_of(roomy(), roomy());
            let ep = Arc::new(Ep::new(Role::Client, &cfg, false));
            let ep2 = ep.clone();
            let o = obs.clone();
            (
                obs,
                vec![
                    ("app".into(), body(move |c| {
                        let mut f = ep.streams.open_bi(&ep.params);
                        let r = c.block_on("open_bi", |cx| Pin::new(&mut f).poll(cx));
                        o.set("app", conn_res(&r, |s| s.as_ref().map(|(sid, _)| format!("opened:{}", u64::from(*sid))).unwrap_or("exhausted".into())));
                    })),
                    ("tls".into(), body(move |c| {
                        c.point("recv_remote_params");
                        ep2.recv_remote_params(Role::Client);
                        c.point("revise_params");
                        ep2.apply_remote_params(Role::Client);
                    })),
                ],
            )
        },
        expect_eq("app", &["opened:0"]),
    ));
}

fn two_waiters(v: &mut Vec<Sc>) {
    // two readers on different streams, one connection error
    v.push(sc(
        "two-readers/conn-error-wakes-both",
        || {
            let obs = Arc::new(Obs::default());
            let cfg = cfg_of(roomy(), roomy());
            let ep = Arc::new(Ep::new(Role::Server, &cfg, true));
            let mut readers = Vec::new();
            for i in 0..2 {
                let sid = StreamId::new(Role::Client, Dir::Uni, i);
                ep.peer_stream(StreamFrame::new(sid, 0, 0), Bytes::new()).expect("peer stream");
                readers.push(ep.accept_uni_now().expect("accept").1);
            }
            let mut t: Vec<(String, Body)> = Vec::new();
            for (i, mut r) in readers.into_iter().enumerate() {
                let o = obs.clone();
                let key: &'static str = if i == 0 { "r0" } else { "r1" };
                t.push((format!("reader-{i}"), body(move |c| {
                    let mut buf = Cap::new(8);
                    let res = wait(c, "read", |cx| r.poll_read(cx, &mut buf));
                    o.set(key, stream_res(&res, |_| format!("read{}", buf.len())));
                })));
            }
            let ep2 = ep.clone();
            t.push(("closer".into(), body(move |c| {
                c.point("on_conn_error");
                ep2.streams.on_conn_error(&close_error());
            })));
            (obs, t)
        },
        Box::new(|o| match (o.get("r0").as_deref(), o.get("r1").as_deref()) {
            (Some(CLOSE_TAG), Some(CLOSE_TAG)) => Ok("both-failed".into()),
            other => Err(format!("{other:?}")),
        }),
    ));
    // one reader gets data, the other the connection error, in either order
    v.push(sc(
        "two-readers/data-for-one-then-conn-error",
        || {
            let obs = Arc::new(Obs::default());
            let cfg = cfg_of(roomy(), roomy());
            let ep = Arc::new(Ep::new(Role::Server, &cfg, true));
            let mut readers = Vec::new();
            for i in 0..2 {
                let sid = StreamId::new(Role::Client, Dir::Uni, i);
                ep.peer_stream(StreamFrame::new(sid, 0, 0), Bytes::new()).expect("peer stream");
                readers.push(ep.accept_uni_now().expect("accept").1);
            }
            let mut t: Vec<(String, Body)> = Vec::new();
            for (i, mut r) in readers.into_iter().enumerate() {
                let o = obs.clone();
                let key: &'static str = if i == 0 { "r0" } else { "r1" };
                t.push((format!("reader-{i}"), body(move |c| {
                    let mut buf = Cap::new(8);
                    let res = wait(c, "read", |cx| r.poll_read(cx, &mut buf));
                    o.set(key, stream_res(&res, |_| format!("read{}", buf.len())));
                })));
            }
            let ep2 = ep.clone();
            t.push(("peer-then-close".into(), body(move |c| {
                c.point("STREAM(uni 0)");
                let _ = ep2.peer_stream(StreamFrame::new(StreamId::new(Role::Client, Dir::Uni, 0), 0, 2), Bytes::from_static(b"hi"));
                c.point("on_conn_error");
                ep2.streams.on_conn_error(&close_error());
            })));
            (obs, t)
        },
        Box::new(|o| {
            let (r0, r1) = (o.get("r0").unwrap_or_default(), o.get("r1").unwrap_or_default());
            // reader 0 may have read the two bytes before the error, or be failed by it
            if (r0 == "read2" || r0 == CLOSE_TAG) && r1 == CLOSE_TAG { Ok(format!("r0={r0}")) } else { Err(format!("r0={r0}, r1={r1}")) }
        }),
    ));
    // two remote_ready() waiters on one ArcParameters
    for (name, fail) in [("params/two-waiters-vs-recv+scid", false), ("params/two-waiters-vs-conn-error", true)] {
        v.push(sc(
            name,
            move || {
                let obs = Arc::new(Obs::default());
                let mut cp = ClientParameters::default();
                cp.set(ParameterId::InitialSourceConnectionId, cid(1)).unwrap();
                let ps = ArcParameters::from(Parameters::new_client(cp, None, cid(9)));
                let mut t: Vec<(String, Body)> = Vec::new();
                for i in 0..2 {
                    let (p, o) = (ps.clone(), obs.clone());
                    let key: &'static str = if i == 0 { "w0" } else { "w1" };
                    t.push((format!("waiter-{i}"), body(move |c| {
                        let mut f = Box::pin(p.remote_ready());
                        let r = wait(c, "remote_ready", |cx| f.as_mut().poll(cx).map(|r| r.map(|_guard| ())));
                        o.set(key, conn_res(&r, |_| "ready".into()));
                    })));
                }
                if fail {
                    let p = ps.clone();
                    t.push(("closer".into(), body(move |c| {
                        c.point("on_conn_error");
                        p.on_conn_error(&close_error());
                    })));
                } else {
                    // (the race between the TLS task and the packet task is c16.rs's
                    // params/ready-vs-recv+scid; here both halves come from one thread)
                    let p2 = ps.clone();
                    t.push(("handshake".into(), body(move |c| {
                        c.point("recv_remote_params");
                        let mut sp = ServerParameters::default();
                        sp.set(ParameterId::InitialSourceConnectionId, cid(2)).unwrap();
                        sp.set(ParameterId::OriginalDestinationConnectionId, cid(9)).unwrap();
                        if let Ok(mut g) = p2.lock_guard() {
                            let _ = g.recv_remote_params(sp);
                        }
                        c.point("initial_scid_from_peer");
                        if let Ok(mut g) = p2.lock_guard() {
                            let _ = g.initial_scid_from_peer_need_equal(cid(2));
                        }
                    })));
                }
                (obs, t)
            },
            Box::new(move |o| {
                let want = if fail { CLOSE_TAG } else { "ready" };
                match (o.get("w0"), o.get("w1")) {
                    (Some(a), Some(b)) if a == want && b == want => Ok(format!("both-{want}")),
                    other => Err(format!("{other:?}, expected both {want}")),
                }
            }),
        ));
    }
    // two writers blocked on their stream windows, one MAX_STREAM_DATA each, by one peer thread
    v.push(sc(
        "two-writers/blocked-writes-vs-max-stream-data",
        || {
            let obs = Arc::new(Obs::default());
            let cfg = cfg_of(roomy(), side(2, 2, 4, 4, 1 << 20));
            let ep = Arc::new(Ep::new(Role::Client, &cfg, true));
            let mut t: Vec<(String, Body)> = Vec::new();
            let mut sids = Vec::new();
            for i in 0..2 {
                let (sid, reader, mut writer) = ep.open_bi_now().expect("open");
                assert!(write_now(&mut writer, b"ab"), "first write");
                sids.push(sid);
                let o = obs.clone();
                let key: &'static str = if i == 0 { "w0" } else { "w1" };
                t.push((format!("writer-{i}"), body(move |c| {
                    let _keep = reader;
                    let r = wait(c, "write", |cx| writer.poll_write(cx, Bytes::from_static(b"cd")));
                    o.set(key, stream_res(&r, |_| "ok".into()));
                })));
            }
            let ep2 = ep.clone();
            t.push(("peer".into(), body(move |c| {
                for sid in sids {
                    c.point("MAX_STREAM_DATA");
                    let _ = ep2.peer_ctl(StreamCtlFrame::MaxStreamData(MaxStreamDataFrame::new(sid, vi(100))));
                }
            })));
            (obs, t)
        },
        Box::new(|o| match (o.get("w0").as_deref(), o.get("w1").as_deref()) {
            (Some("ok"), Some("ok")) => Ok("both-written".into()),
            other => Err(format!("{other:?}")),
        }),
    ));
}

// ------------------------------------------------------------------------------------------
// C17b: close / fail at component level
// ------------------------------------------------------------------------------------------

#[derive(Debug, Clone, Copy, PartialEq, Eq)]
enum Kind {
    /// `poll_read` with nothing received (receiver state Recv)
    Read,
    /// `poll_read` behind a gap, final size known (receiver state SizeKnown)
    ReadSizeKnown,
    /// `poll_write` with the stream window full (sender state Ready)
    Write,
    /// `poll_flush`, nothing sent yet (Ready)
    Flush,
    /// `poll_flush`, data sent but not acknowledged (Sending)
    FlushSending,
    /// `poll_shutdown`, nothing sent yet (Ready)
    Shutdown,
    /// `poll_shutdown`, data and FIN sent, not acknowledged (DataSent)
    ShutdownDataSent,
    /// `open_bi` blocked on the peer's stream limit
    OpenBiLimit,
    AcceptBi,
    AcceptUni,
    DgramRecv,
    /// `remote_ready()` before the peer's transport parameters arrived
    RemoteReady,
    /// `open_bi` before the peer's transport parameters arrived
    OpenBiNoParams,
    /// `accept_bi` before the peer's transport parameters arrived
    AcceptBiNoParams,
}

impl Kind {
    fn pre_handshake(self) -> bool {
        matches!(self, Kind::RemoteReady | Kind::OpenBiNoParams | Kind::AcceptBiNoParams)
    }
    fn needs_stream(self) -> bool {
        matches!(self, Kind::Read | Kind::ReadSizeKnown | Kind::Write | Kind::Flush | Kind::FlushSending | Kind::Shutdown | Kind::ShutdownDataSent)
    }
    fn sent_before(self) -> bool {
        matches!(self, Kind::FlushSending | Kind::ShutdownDataSent)
    }
    fn key(self) -> &'static str {
        match self {
            Kind::Read => "read",
            Kind::ReadSizeKnown => "read-size-known",
            Kind::Write => "blocked-write",
            Kind::Flush => "flush",
            Kind::FlushSending => "flush-in-sending",
            Kind::Shutdown => "shutdown",
            Kind::ShutdownDataSent => "shutdown-in-data-sent",
            Kind::OpenBiLimit => "open-bi-on-stream-limit",
            Kind::AcceptBi => "accept-bi",
            Kind::AcceptUni => "accept-uni",
            Kind::DgramRecv => "datagram-recv",
            Kind::RemoteReady => "remote-ready",
            Kind::OpenBiNoParams => "open-bi-before-params",
            Kind::AcceptBiNoParams => "accept-bi-before-params",
        }
    }
}

struct Slot {
    reader: StreamReader,
    writer: StreamWriter,
}

/// Every kind of operation once more, after the close: all must fail with the close error.
fn later_operations(ep: &Ep, slots: &[Arc<Mutex<Slot>>], dg_reader: &DatagramReader, dg_writer: &DatagramWriter, want: &str) -> Vec<String> {
    let wk = noop_waker();
    let mut cx = Context::from_waker(&wk);
    let mut bad = Vec::new();
    let mut check = |what: String, got: String| {
        if got != want {
            bad.push(format!("{what}={got}"));
        }
    };
    let pend = || "pending".to_string();
    for (i, s) in slots.iter().enumerate() {
        let mut g = s.lock().unwrap();
        let mut buf = Cap::new(8);
        let r = match g.reader.poll_read(&mut cx, &mut buf) {
            Poll::Ready(r) => stream_res(&r, |_| format!("read{}", buf.len())),
            Poll::Pending => pend(),
        };
        check(format!("stream{i}.read"), r);
        let r = match g.writer.poll_write(&mut cx, Bytes::from_static(b"x")) {
            Poll::Ready(r) => stream_res(&r, |_| "ok".into()),
            Poll::Pending => pend(),
        };
        check(format!("stream{i}.write"), r);
        let r = match g.writer.poll_flush(&mut cx) {
            Poll::Ready(r) => stream_res(&r, |_| "ok".into()),
            Poll::Pending => pend(),
        };
        check(format!("stream{i}.flush"), r);
        let r = match g.writer.poll_shutdown(&mut cx) {
            Poll::Ready(r) => stream_res(&r, |_| "ok".into()),
            Poll::Pending => pend(),
        };
        check(format!("stream{i}.shutdown"), r);
    }
    {
        let mut f = ep.streams.open_bi(&ep.params);
        let r = match Pin::new(&mut f).poll(&mut cx) {
            Poll::Ready(r) => conn_res(&r, |_| "ok".into()),
            Poll::Pending => pend(),
        };
        check("open_bi".into(), r);
        let mut f = ep.streams.open_uni(&ep.params);
        let r = match Pin::new(&mut f).poll(&mut cx) {
            Poll::Ready(r) => conn_res(&r, |_| "ok".into()),
            Poll::Pending => pend(),
        };
        check("open_uni".into(), r);
        let mut f = ep.streams.accept_bi(&ep.params);
        let r = match Pin::new(&mut f).poll(&mut cx) {
            Poll::Ready(r) => conn_res(&r, |_| "ok".into()),
            Poll::Pending => pend(),
        };
        check("accept_bi".into(), r);
        let mut f = ep.streams.accept_uni();
        let r = match Pin::new(&mut f).poll(&mut cx) {
            Poll::Ready(r) => conn_res(&r, |_| "ok".into()),
            Poll::Pending => pend(),
        };
        check("accept_uni".into(), r);
    }
    {
        let r = match dg_reader.poll_recv(&mut cx) {
            Poll::Ready(Ok(_)) => "ok".to_string(),
            Poll::Ready(Err(e)) => io_tag(&e),
            Poll::Pending => pend(),
        };
        check("datagram.recv".into(), r);
        check("datagram.send".into(), dg_writer.send_bytes(Bytes::from_static(b"late")).map(|_| "ok".to_string()).unwrap_or_else(|e| io_tag(&e)));
        check("datagram.reader()".into(), ep.dgram.reader().map(|_| "ok".to_string()).unwrap_or_else(|e| io_tag(&e)));
        check("datagram.writer()".into(), ep.dgram.writer(1200).map(|_| "ok".to_string()).unwrap_or_else(|e| io_tag(&e)));
    }
    {
        let mut f = Box::pin(ep.params.remote_ready());
        let r = match f.as_mut().poll(&mut cx) {
            Poll::Ready(r) => conn_res(&r.map(|_guard| ()), |_| "ok".into()),
            Poll::Pending => pend(),
        };
        check("remote_ready".into(), r);
    }
    bad
}

fn close_sc(name: &'static str, kinds: &'static [Kind]) -> Sc {
    close_sc_with(name, kinds, close_error)
}

fn close_sc_with(name: &'static str, kinds: &'static [Kind], mk_error: fn() -> QErr) -> Sc {
    let build = move || {
        let obs = Arc::new(Obs::default());
        let pre = kinds.iter().any(|k| k.pre_handshake());
        assert!(!pre || !kinds.iter().any(|k| k.needs_stream() || *k == Kind::OpenBiLimit), "no streams before the handshake");
        let n_streams = kinds.iter().filter(|k| k.needs_stream()).count() as u64;
        // the server grants exactly the streams opened below, each with a send window of 2 bytes
        let cfg = cfg_of(roomy(), side(2, 2, n_streams, 0, 1 << 20));
        let ep = Arc::new(Ep::new(Role::Client, &cfg, !pre));

        // a datagram waits in the queue: "emits nothing afterwards" is never vacuous
        let dg_reader = ep.dgram.reader().expect("datagram reader");
        let dg_writer = ep.dgram.writer(1200).expect("datagram writer");
        dg_writer.send_bytes(Bytes::from_static(b"dg")).expect("queue a datagram");

        // one stream per stream operation
        let mut slots: Vec<(Kind, StreamId, Slot)> = Vec::new();
        for k in kinds.iter().filter(|k| k.needs_stream()) {
            let (sid, reader, writer) = ep.open_bi_now().expect("open");
            slots.push((*k, sid, Slot { reader, writer }));
        }
        let wk = noop_waker();
        let mut cx = Context::from_waker(&wk);
        // first the streams that have sent something before the close …
        for (k, _, s) in slots.iter_mut().filter(|(k, ..)| k.sent_before()) {
            assert!(write_now(&mut s.writer, b"ab"), "write");
            if *k == Kind::ShutdownDataSent {
                assert!(s.writer.poll_shutdown(&mut cx).is_pending(), "shutdown completes only when acknowledged");
            }
        }
        if slots.iter().any(|(k, ..)| k.sent_before()) {
            let (frames, _) = ep.assemble(1200);
            assert!(frames.iter().any(|f| matches!(f, Frame::Stream(..))), "the prepared data was sent");
            // the datagram went out with it; queue the next one
            dg_writer.send_bytes(Bytes::from_static(b"dg")).expect("queue a datagram");
        }
        // … then the ones whose data is still waiting to be sent
        for (k, sid, s) in slots.iter_mut().filter(|(k, ..)| !k.sent_before()) {
            match k {
                Kind::Write | Kind::Flush | Kind::Shutdown => assert!(write_now(&mut s.writer, b"ab"), "write"),
                Kind::ReadSizeKnown => {
                    let mut f = StreamFrame::new(*sid, 2, 1);
                    f.set_eos_flag(true);
                    ep.peer_stream(f, Bytes::from_static(b"z")).expect("peer frame");
                }
                _ => {}
            }
        }
        let slots: Vec<(Kind, Arc<Mutex<Slot>>)> = slots.into_iter().map(|(k, _, s)| (k, Arc::new(Mutex::new(s)))).collect();

        let mut t: Vec<(String, Body)> = Vec::new();
        let mut stream_slots = slots.iter();
        for k in kinds.iter().copied() {
            let (ep, o) = (ep.clone(), obs.clone());
            let slot = if k.needs_stream() { Some(stream_slots.next().expect("slot").1.clone()) } else { None };
            let mut dg = dg_reader.clone();
            t.push((format!("app:{}", k.key()), body(move |c| {
                let got = match k {
                    Kind::Read | Kind::ReadSizeKnown => {
                        let s = slot.unwrap();
                        let mut buf = Cap::new(8);
                        let r = wait(c, k.key(), |cx| s.lock().unwrap().reader.poll_read(cx, &mut buf));
                        stream_res(&r, |_| format!("read{}", buf.len()))
                    }
                    Kind::Write => {
                        let s = slot.unwrap();
                        let r = wait(c, k.key(), |cx| s.lock().unwrap().writer.poll_write(cx, Bytes::from_static(b"cd")));
                        stream_res(&r, |_| "ok".into())
                    }
                    Kind::Flush | Kind::FlushSending => {
                        let s = slot.unwrap();
                        let r = wait(c, k.key(), |cx| s.lock().unwrap().writer.poll_flush(cx));
                        stream_res(&r, |_| "ok".into())
                    }
                    Kind::Shutdown | Kind::ShutdownDataSent => {
                        let s = slot.unwrap();
                        let r = wait(c, k.key(), |cx| s.lock().unwrap().writer.poll_shutdown(cx));
                        stream_res(&r, |_| "ok".into())
                    }
                    Kind::OpenBiLimit | Kind::OpenBiNoParams => {
                        let mut f = ep.streams.open_bi(&ep.params);
                        let r = wait(c, k.key(), |cx| Pin::new(&mut f).poll(cx));
                        conn_res(&r, |s| s.as_ref().map(|(sid, _)| format!("opened:{}", u64::from(*sid))).unwrap_or("exhausted".into()))
                    }
                    Kind::AcceptBi | Kind::AcceptBiNoParams => {
                        let mut f = ep.streams.accept_bi(&ep.params);
                        let r = wait(c, k.key(), |cx| Pin::new(&mut f).poll(cx));
                        conn_res(&r, |(sid, _)| format!("accepted:{}", u64::from(*sid)))
                    }
                    Kind::AcceptUni => {
                        let mut f = ep.streams.accept_uni();
                        let r = wait(c, k.key(), |cx| Pin::new(&mut f).poll(cx));
                        conn_res(&r, |(sid, _)| format!("accepted:{}", u64::from(*sid)))
                    }
                    Kind::DgramRecv => {
                        let mut f = dg.recv();
                        match wait(c, k.key(), |cx| Pin::new(&mut f).poll(cx)) {
                            Ok(b) => format!("ok:{}", b.len()),
                            Err(e) => io_tag(&e),
                        }
                    }
                    Kind::RemoteReady => {
                        let mut f = Box::pin(ep.params.remote_ready());
                        let r = wait(c, k.key(), |cx| f.as_mut().poll(cx).map(|r| r.map(|_guard| ())));
                        conn_res(&r, |_| "ready".into())
                    }
                };
                o.set(k.key(), got);
            })));
        }
        // the closer: Components::enter_closing
        {
            let (ep, o) = (ep.clone(), obs.clone());
            let slots: Vec<Arc<Mutex<Slot>>> = slots.iter().map(|(_, s)| s.clone()).collect();
            t.push(("closer".into(), body(move |c| {
                let e = mk_error();
                let want = tag(&e);
                // up to two pending operations: a scheduling point before each of the three
                // calls and before the later operations; with three, one point before the
                // whole (synchronous) sequence keeps the search small
                let fine = kinds.len() <= 2;
                c.point("data_streams.on_conn_error");
                ep.streams.on_conn_error(&e);
                c.log("data_streams.on_conn_error done");
                if fine {
                    c.point("datagram_flow.on_conn_error");
                }
                ep.dgram.on_conn_error(&e);
                c.log("datagram_flow.on_conn_error done");
                if fine {
                    c.point("parameters.on_conn_error");
                }
                ep.params.on_conn_error(&e);
                c.log("parameters.on_conn_error done");
                if fine {
                    c.point("after-close");
                }
                o.set("emitted", ep.load_app_data().to_string());
                let bad = later_operations(&ep, &slots, &dg_reader, &dg_writer, &want);
                o.set("later", if bad.is_empty() { "all-fail-with-the-error".to_string() } else { bad.join(" ") });
            })));
        }
        (obs, t)
    };
    Sc {
        name,
        build: Box::new(build),
        expect: Box::new(move |o| {
            let want = tag(&mk_error());
            let mut wrong = Vec::new();
            for k in kinds {
                let got = o.get(k.key()).unwrap_or_else(|| "<no result>".into());
                if got != want {
                    wrong.push(format!("pending {} completed with {got}", k.key()));
                }
            }
            match o.get("emitted").as_deref() {
                Some("0") => {}
                other => wrong.push(format!("the assemblers emitted {other:?} bytes of application data after the close")),
            }
            match o.get("later").as_deref() {
                Some("all-fail-with-the-error") => {}
                other => wrong.push(format!("later operations: {other:?}")),
            }
            if wrong.is_empty() { Ok("all-end-with-the-error".into()) } else { Err(format!("expected {want}: {}", wrong.join("; "))) }
        }),
        may_block: nobody(),
    }
}

/// C17b: every pending operation ends with the connection error.
pub fn close_scenarios() -> Vec<Sc> {
    use Kind::*;
    vec![
        close_sc("close/read", &[Read]),
        close_sc("close/read-size-known", &[ReadSizeKnown]),
        close_sc("close/blocked-write", &[Write]),
        close_sc("close/flush", &[Flush]),
        close_sc("close/flush-in-sending", &[FlushSending]),
        close_sc("close/shutdown", &[Shutdown]),
        close_sc("close/shutdown-in-data-sent", &[ShutdownDataSent]),
        close_sc("close/open-bi-on-stream-limit", &[OpenBiLimit]),
        close_sc("close/accept-bi", &[AcceptBi]),
        close_sc("close/accept-uni", &[AcceptUni]),
        close_sc("close/datagram-recv", &[DgramRecv]),
        close_sc("close/remote-ready", &[RemoteReady]),
        close_sc("close/open-bi-before-params", &[OpenBiNoParams]),
        close_sc("close/accept-bi-before-params", &[AcceptBiNoParams]),
        close_sc("close/read+blocked-write", &[Read, Write]),
        close_sc("close/flush-in-sending+shutdown-in-data-sent", &[FlushSending, ShutdownDataSent]),
        close_sc("close/read+blocked-write+accept-uni", &[Read, Write, AcceptUni]),
        close_sc("close/flush+shutdown+datagram-recv", &[Flush, Shutdown, DgramRecv]),
        close_sc("close/accept-bi+accept-uni+datagram-recv", &[AcceptBi, AcceptUni, DgramRecv]),
        close_sc("close/remote-ready+open-bi-before-params+datagram-recv", &[RemoteReady, OpenBiNoParams, DgramRecv]),
        // the peer's application close (enter_draining) instead of a transport error
        close_sc_with("close/app-error/read+blocked-write", &[Read, Write], app_close_error),
        close_sc_with("close/app-error/accept-bi+accept-uni+datagram-recv", &[AcceptBi, AcceptUni, DgramRecv], app_close_error),
    ]
}
