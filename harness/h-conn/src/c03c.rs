//! C03c — the packet-level part of C03: what the frame loop of every packet space makes of a
//! decrypted payload.
//!
//! E0 exhaustive enumeration. For each packet type the receiver can be asked to parse a packet
//! is sealed whose payload is exactly `p` (C06's send path: real `PacketWriter`, real keys from
//! a real rustls handshake), taken through the real receive path (`PacketReader` →
//! `CipherPacket::decrypt_{long,short}_packet`) and the resulting `PlainPacket` is handed to
//! `qconnection::space::verif_read_plain_packet` — the hook that is nothing but
//! `read_plain_packet`, the loop `space::{initial,handshake,data}` run — with a dispatch closure
//! that records the frames.
//!
//! Payloads, per packet type (Initial, 0-RTT, Handshake, 1-RTT): every byte string of length
//! 0, 1 and 2; valid encodings of every frame type written with qbase's own writers, each of
//! their truncations and each followed by one PADDING byte. Thorough: two more configurations
//! per type (other direction / connection-id lengths 0 and 20 / the other two AEADs) with all
//! 3-byte strings over a boundary alphabet, and every 3-byte string (2^24, generated) for the
//! cid-8 configuration.
//!
//! Oracle (RFC 9000 §12.4 and the statement of C03; which error a *decoder* picks for given
//! bytes is judged by the h-base part of C03, not here):
//!   1. no panic;
//!   2. a packet containing no frames is answered with a PROTOCOL_VIOLATION; a payload of
//!      PADDING bytes only contains frames and is accepted;
//!   3. for a non-empty payload the packet-level verdict is the decoder's: `FrameReader` run
//!      on the same bytes to the end or its first error. All frames decode ⇒ Ok and exactly
//!      these frames were dispatched, in order. First decoder error `e` ⇒ an error of kind
//!      `QuicError::from(e).kind()` after exactly the frames decoded before it.
use std::collections::{BTreeMap, BTreeSet};

use bytes::{Bytes, BytesMut};
use mc_core::{Args, Report, panics::catch, par::par_map, report::Coverage};
use qbase::{
    cid::ConnectionId,
    error::{Error as ConnError, ErrorFrameType, ErrorKind, QuicError},
    frame::{
        AckFrame, AddAddressFrame, ConnectionCloseFrame, CryptoFrame, DataBlockedFrame,
        DatagramFrame, EcnCounts, Frame, FrameReader, FrameType, GetFrameType, HandshakeDoneFrame,
        MaxDataFrame, MaxStreamDataFrame, MaxStreamsFrame, NewConnectionIdFrame, NewTokenFrame,
        PaddingFrame, PathChallengeFrame, PathResponseFrame, PingFrame, PunchDoneFrame,
        PunchHelloFrame, PunchMeNowFrame, RemoveAddressFrame, ResetStreamFrame,
        RetireConnectionIdFrame, StopSendingFrame, StreamDataBlockedFrame, StreamFrame,
        StreamsBlockedFrame,
        error::Error as FrameError,
        io::{WriteDataFrame, WriteFrame},
    },
    net::NatType,
    packet::{
        DataHeader, GetType, Packet, PacketNumber, PacketReader, SpinBit, long,
        r#type::{
            Type,
            long::{Type as LongType, Ver1},
            short::OneRtt,
        },
    },
    role::Role,
    sid::{Dir as SDir, StreamId},
    varint::VarInt,
};
use qconnection::space::verif_read_plain_packet;
use qevent::quic::PacketHeaderBuilder;
use qinterface::component::route::{CipherPacket, PlainPacket};
use serde::{Deserialize, Serialize};
use serde_json::{Map, Value, json};

use crate::c06::{self, Ctx, DATAGRAM, Dir, Fill, KeyView, PType, Pn, hex};

/// A 4-byte packet number encoding: pn + empty payload + 16-byte tag = 20 bytes, the minimum
/// header protection can sample, so that even a packet with no frames can be sealed.
const PN4: Pn = Pn { pn: 0x0102_0304, la: None, forced_len: Some(4), expected: 0x0102_0304 };

/// The boundary alphabet of the thorough tier's 3-byte payloads: frame types at the edges of
/// every type range (PADDING, PING, ACK, ACK_ECN, RESET_STREAM, CRYPTO, NEW_TOKEN, STREAM
/// 0x08/0x0f, MAX_DATA, MAX_STREAMS, STREAMS_BLOCKED, NEW_CONNECTION_ID, RETIRE, PATH_*,
/// CONNECTION_CLOSE 0x1c/0x1d, HANDSHAKE_DONE, the first unassigned 0x1f, DATAGRAM), and the
/// varint length prefixes.
const ALPHABET: [u8; 25] = [
    0x00, 0x01, 0x02, 0x03, 0x04, 0x06, 0x07, 0x08, 0x0f, 0x10, 0x12, 0x17, 0x18, 0x19, 0x1a,
    0x1c, 0x1d, 0x1e, 0x1f, 0x30, 0x31, 0x40, 0x80, 0xc0, 0xff,
];

// ------------------------------------------------------------------------------------------
// configurations
// ------------------------------------------------------------------------------------------

#[derive(Debug, Clone, PartialEq, Eq, Serialize, Deserialize)]
struct Config {
    /// "initial" / "0rtt" / "handshake" / "1rtt" — the sub-check and the signature suffix
    ptype: String,
    suite: String,
    dir: Dir,
    cid_len: usize,
}

impl Config {
    fn ptype(&self) -> Option<PType> {
        Some(match self.ptype.as_str() {
            "initial" => PType::Initial { token: 0 },
            "0rtt" => PType::ZeroRtt,
            "handshake" => PType::Handshake,
            "1rtt" => PType::OneRtt,
            _ => return None,
        })
    }
    /// The packet type the payload's frames are judged against, built here and not taken
    /// from the parsed header.
    fn frame_context(&self) -> Option<Type> {
        Some(match self.ptype.as_str() {
            "initial" => Type::Long(LongType::V1(Ver1::INITIAL)),
            "0rtt" => Type::Long(LongType::V1(Ver1::ZERO_RTT)),
            "handshake" => Type::Long(LongType::V1(Ver1::HANDSHAKE)),
            "1rtt" => Type::Short(OneRtt(SpinBit::Zero)),
            _ => return None,
        })
    }
    fn label(&self) -> String {
        format!("{} {:?} cid {} {}", self.ptype, self.dir, self.cid_len, self.suite)
    }
}

const PTYPES: [&str; 4] = ["initial", "0rtt", "handshake", "1rtt"];

fn configs(thorough: bool) -> Vec<Config> {
    let mut v = Vec::new();
    for pt in PTYPES {
        // 0-RTT packets exist client → server only (a client holds no 0-RTT decrypt keys)
        let back = if pt == "0rtt" { Dir::C2S } else { Dir::S2C };
        let first = if pt == "handshake" { Dir::S2C } else { Dir::C2S };
        let other = if pt == "handshake" { Dir::C2S } else { back };
        v.push(Config { ptype: pt.into(), suite: "aes128gcm".into(), dir: first, cid_len: 8 });
        if thorough {
            v.push(Config { ptype: pt.into(), suite: "chacha20poly1305".into(), dir: first, cid_len: 0 });
            v.push(Config { ptype: pt.into(), suite: "aes256gcm".into(), dir: other, cid_len: 20 });
        }
    }
    v
}

// ------------------------------------------------------------------------------------------
// payloads
// ------------------------------------------------------------------------------------------

fn v(x: u64) -> VarInt {
    VarInt::from_u64(x).expect("fits a varint")
}

fn one<F>(f: &F) -> Vec<u8>
where
    BytesMut: WriteFrame<F>,
{
    let mut b = BytesMut::new();
    b.put_frame(f);
    b.to_vec()
}

fn data<F>(f: &F, d: &[u8]) -> Vec<u8>
where
    BytesMut: WriteDataFrame<F, Bytes>,
{
    let mut b = BytesMut::new();
    b.put_data_frame(f, &Bytes::copy_from_slice(d));
    b.to_vec()
}

/// Valid encodings of every frame type, written with qbase's own writers (the list of
/// h-base/src/c03/corpus.rs without its multi-frame sequences).
fn valid_frames() -> Vec<Vec<u8>> {
    use std::net::{Ipv4Addr, Ipv6Addr, SocketAddr, SocketAddrV4, SocketAddrV6};
    let mut out: Vec<Vec<u8>> = Vec::new();
    out.push(one(&PaddingFrame));
    out.push(one(&PingFrame));
    out.push(one(&HandshakeDoneFrame));
    for x in [0u64, 63, 64, 16383, 16384, (1 << 30) - 1, 1 << 30, (1 << 62) - 1] {
        out.push(one(&MaxDataFrame::new(v(x))));
        out.push(one(&DataBlockedFrame::new(v(x))));
        out.push(one(&RetireConnectionIdFrame::new(v(x))));
        out.push(one(&RemoveAddressFrame { seq_num: v(x) }));
        if x <= 1 << 60 {
            out.push(one(&MaxStreamsFrame::with(SDir::Bi, v(x))));
            out.push(one(&MaxStreamsFrame::with(SDir::Uni, v(x))));
            out.push(one(&StreamsBlockedFrame::with(SDir::Bi, v(x))));
            out.push(one(&StreamsBlockedFrame::with(SDir::Uni, v(x))));
        }
    }
    let sid0 = StreamId::new(Role::Client, SDir::Bi, 0);
    let sid_big = StreamId::new(Role::Server, SDir::Uni, 4095);
    for x in [0u64, 64, (1 << 62) - 1] {
        out.push(one(&MaxStreamDataFrame::new(sid0, v(x))));
        out.push(one(&StreamDataBlockedFrame::new(sid_big, v(x))));
        out.push(one(&StopSendingFrame::new(sid0, v(x))));
        out.push(one(&ResetStreamFrame::new(sid_big, v(x), v(x))));
    }
    out.push(one(&AckFrame::new(v(10), v(3), v(2), vec![], None)));
    out.push(one(&AckFrame::new(v(100), v(64), v(2), vec![(v(1), v(2)), (v(0), v(0))], None)));
    out.push(one(&AckFrame::new(
        v(100),
        v(0),
        v(0),
        vec![(v(3), v(4))],
        Some(EcnCounts::new(v(1), v(64), v(16384))),
    )));
    for (off, d) in [(0u64, &b""[..]), (1, &b"hello"[..]), (16384, &b"x"[..])] {
        out.push(data(&CryptoFrame::new(v(off), v(d.len() as u64)), d));
    }
    out.push(one(&NewTokenFrame::new(vec![0x7a])));
    out.push(one(&NewTokenFrame::new((0..64u8).collect())));
    for (sid, off) in [(sid0, 0u64), (sid_big, 64)] {
        for explicit in [false, true] {
            for fin in [false, true] {
                for d in [&b""[..], &b"abc"[..]] {
                    let mut f = StreamFrame::new(sid, off, d.len());
                    f.set_eos_flag(fin);
                    f.set_len_bit(if explicit { qbase::frame::Len::Explicit } else { qbase::frame::Len::Omit });
                    out.push(data(&f, d));
                }
            }
        }
    }
    // the writer takes a random reset token: overwrite it
    for (n, seq, rpt) in [(1usize, 1u64, 0u64), (8, 64, 64), (20, 16384, 1)] {
        let cid: Vec<u8> = (0..n).map(|i| 0xd0u8.wrapping_add(i as u8)).collect();
        let mut e = one(&NewConnectionIdFrame::new(ConnectionId::from_slice(&cid), v(seq), v(rpt)));
        let l = e.len();
        for (i, b) in e[l - 16..].iter_mut().enumerate() {
            *b = 0xe0 + i as u8;
        }
        out.push(e);
    }
    let ch = PathChallengeFrame::from_slice(&[1, 2, 3, 4, 5, 6, 7, 8]);
    out.push(one(&ch));
    out.push(one(&PathResponseFrame::from(ch)));
    out.push(one(&ConnectionCloseFrame::new_quic(
        ErrorKind::ProtocolViolation,
        ErrorFrameType::V1(FrameType::Padding),
        "",
    )));
    out.push(one(&ConnectionCloseFrame::new_quic(
        ErrorKind::FlowControl,
        ErrorFrameType::V1(FrameType::MaxData),
        "bad",
    )));
    out.push(one(&ConnectionCloseFrame::new_app(v(0), "")));
    out.push(one(&ConnectionCloseFrame::new_app(v(16384), "bye")));
    for (with_len, d) in [(true, &b""[..]), (true, &b"dat"[..]), (false, &b"dat"[..]), (false, &b""[..])] {
        out.push(data(&DatagramFrame::new(with_len, v(d.len() as u64)), d));
    }
    let a4 = SocketAddr::V4(SocketAddrV4::new(Ipv4Addr::new(192, 0, 2, 1), 4433));
    let a6 = SocketAddr::V6(SocketAddrV6::new(Ipv6Addr::new(0x2001, 0xdb8, 0, 0, 0, 0, 0, 1), 4433, 0, 0));
    out.push(one(&AddAddressFrame::new(1, a4, 2, NatType::RestrictedPort)));
    out.push(one(&AddAddressFrame::new(64, a6, 0, NatType::FullCone)));
    out.push(one(&PunchMeNowFrame::new(1, 2, a4, 3, NatType::Symmetric)));
    out.push(one(&PunchMeNowFrame::new(64, 0, a6, 0, NatType::Blocked)));
    out.push(one(&PunchHelloFrame::new(1, 2, 3)));
    out.push(one(&PunchDoneFrame::new(64, 16384, 0)));
    out
}

struct Payloads {
    all: Vec<Vec<u8>>,
    short: u64,
    valid_encodings: u64,
    derived_from_valid: u64,
    alphabet3: u64,
}

/// Each payload once, ordered by (length, bytes).
fn payloads(thorough: bool) -> Result<Payloads, String> {
    let mut set: BTreeSet<(usize, Vec<u8>)> = BTreeSet::new();
    let mut add = |p: Vec<u8>| set.insert((p.len(), p));
    // (a) every byte string of length 0, 1, 2
    let mut short = 0;
    add(vec![]);
    short += 1;
    for a in 0..=255u8 {
        add(vec![a]);
        short += 1;
        for b in 0..=255u8 {
            add(vec![a, b]);
            short += 1;
        }
    }
    // (b) valid encodings, every truncation, and each followed by one PADDING byte
    let valid = match catch(valid_frames) {
        Ok(v) => v,
        Err(p) => return Err(format!("qbase's frame writers panicked building the corpus: {} at {}", p.message, p.location)),
    };
    let valid: Vec<Vec<u8>> = valid.into_iter().collect::<BTreeSet<_>>().into_iter().collect();
    let mut derived = 0;
    for e in &valid {
        for cut in 0..=e.len() {
            derived += 1;
            add(e[..cut].to_vec());
        }
        let mut padded = e.clone();
        padded.push(0x00);
        derived += 1;
        add(padded);
    }
    // thorough: all 3-byte strings over the boundary alphabet
    let mut alphabet3 = 0;
    if thorough {
        for a in ALPHABET {
            for b in ALPHABET {
                for c in ALPHABET {
                    add(vec![a, b, c]);
                    alphabet3 += 1;
                }
            }
        }
    }
    Ok(Payloads {
        all: set.into_iter().map(|(_, p)| p).collect(),
        short,
        valid_encodings: valid.len() as u64,
        derived_from_valid: derived,
        alphabet3,
    })
}

// ------------------------------------------------------------------------------------------
// one payload through the real code
// ------------------------------------------------------------------------------------------

/// What the frame loop did with a packet.
struct LoopOutcome {
    /// `Err` = the connection error's kind and text
    result: Result<(), (ErrorKind, String)>,
    dispatched: Vec<Frame>,
    /// the body the decrypted packet exposes (must be the payload that was sealed)
    body: Bytes,
    /// the packet type the header reports (what `read_plain_packet` gives `FrameReader`)
    reported_type: Type,
}

enum Step {
    Done(LoopOutcome),
    /// the frame loop panicked
    Panic(mc_core::panics::PanicInfo),
    /// the packet did not come out of the receive path — not this check's subject
    Machinery(String),
}

fn frame_loop<H>(p: &PlainPacket<H>) -> Step
where
    H: GetType,
    PacketHeaderBuilder: for<'a> From<&'a H>,
{
    let mut dispatched: Vec<Frame> = Vec::new();
    let r = catch(|| verif_read_plain_packet(p, |f| dispatched.push(f)));
    match r {
        Ok(result) => Step::Done(LoopOutcome {
            result: result.map_err(|e: ConnError| (e.kind(), e.to_string())),
            dispatched,
            body: p.body(),
            reported_type: p.get_type(),
        }),
        Err(pi) => Step::Panic(pi),
    }
}

/// The receive path of C06 (`PacketReader` → per-type `CipherPacket::decrypt_*`) up to the
/// `PlainPacket`, then the frame loop.
fn open_and_read(view: &KeyView, wire: &[u8], expected: u64) -> Step {
    let opened = catch(|| {
        let mut reader = PacketReader::new(BytesMut::from(wire), view.cid.len());
        let first = match reader.next() {
            Some(Ok(Packet::Data(dp))) => dp,
            Some(Ok(_)) => return Err("PacketReader: not a data packet".to_string()),
            Some(Err(e)) => return Err(format!("PacketReader: {e}")),
            None => return Err("PacketReader: no packet".to_string()),
        };
        if reader.next().is_some() {
            return Err("PacketReader: more than one packet in the datagram".to_string());
        }
        Ok(first)
    });
    let dp = match opened {
        Ok(Ok(dp)) => dp,
        Ok(Err(e)) => return Step::Machinery(e),
        Err(p) => return Step::Machinery(format!("PacketReader panicked: {} at {}", p.message, p.location)),
    };
    let decoder = |enc: PacketNumber| Ok(enc.decode(expected));
    let qbase::packet::DataPacket { header, bytes, offset } = dp;
    fn got<H>(r: Result<Option<Result<PlainPacket<H>, QuicError>>, mc_core::panics::PanicInfo>) -> Result<PlainPacket<H>, String> {
        match r {
            Ok(Some(Ok(p))) => Ok(p),
            Ok(Some(Err(e))) => Err(format!("CipherPacket::decrypt: connection error {e}")),
            Ok(None) => Err("CipherPacket::decrypt: packet dropped".into()),
            Err(p) => Err(format!("CipherPacket::decrypt panicked: {} at {}", p.message, p.location)),
        }
    }
    match header {
        DataHeader::Long(long::DataHeader::Initial(h)) => {
            let k = &view.initial;
            match got(catch(|| CipherPacket::new(h, bytes, offset).decrypt_long_packet(k.header.as_ref(), k.packet.as_ref(), decoder))) {
                Ok(p) => frame_loop(&p),
                Err(e) => Step::Machinery(e),
            }
        }
        DataHeader::Long(long::DataHeader::Handshake(h)) => {
            let k = &view.handshake;
            match got(catch(|| CipherPacket::new(h, bytes, offset).decrypt_long_packet(k.header.as_ref(), k.packet.as_ref(), decoder))) {
                Ok(p) => frame_loop(&p),
                Err(e) => Step::Machinery(e),
            }
        }
        DataHeader::Long(long::DataHeader::ZeroRtt(h)) => {
            let Some(k) = &view.zero_rtt else {
                return Step::Machinery("receiver holds no 0-RTT keys".into());
            };
            match got(catch(|| CipherPacket::new(h, bytes, offset).decrypt_long_packet(k.header.as_ref(), k.packet.as_ref(), decoder))) {
                Ok(p) => frame_loop(&p),
                Err(e) => Step::Machinery(e),
            }
        }
        DataHeader::Short(h) => {
            match got(catch(|| CipherPacket::new(h, bytes, offset).decrypt_short_packet(view.one_rtt_hp.as_ref(), &view.one_rtt_pk, decoder))) {
                Ok(p) => frame_loop(&p),
                Err(e) => Step::Machinery(e),
            }
        }
    }
}

/// The decoder on the same bytes: frames up to the end or the first error.
struct Reference {
    frames: Vec<Frame>,
    error: Option<FrameError>,
    /// an `Ok` item that consumed nothing (the loop under test would never end)
    stuck: bool,
}

fn reference(payload: &[u8], ty: Type) -> Result<Reference, mc_core::panics::PanicInfo> {
    catch(|| {
        let mut rd = FrameReader::new(Bytes::copy_from_slice(payload), ty);
        let mut out = Reference { frames: vec![], error: None, stuck: false };
        loop {
            let before = rd.len();
            match rd.next() {
                None => break,
                Some(Ok((f, _))) => {
                    if rd.len() >= before {
                        out.stuck = true;
                        break;
                    }
                    out.frames.push(f);
                }
                Some(Err(e)) => {
                    out.error = Some(e);
                    break;
                }
            }
        }
        out
    })
}

fn kinds_of(frames: &[Frame]) -> Vec<String> {
    frames.iter().map(|f| format!("{:?}", f.frame_type())).collect()
}

fn brief(frames: &[Frame]) -> String {
    let k = kinds_of(frames);
    if k.len() <= 6 {
        format!("[{}]", k.join(", "))
    } else {
        format!("[{}, … {} frames]", k[..6].join(", "), k.len())
    }
}

/// Outcome class of one payload, for the histogram.
#[derive(Debug, Clone)]
struct Eval {
    /// "ok" / "err:<kind>" / "panic"
    class: String,
    dispatched_kinds: Vec<String>,
    /// (signature, detail)
    violations: Vec<(String, String)>,
    machinery: Option<String>,
    trace: String,
}

fn evaluate(cfg: &Config, ctx: &Ctx, buf: &mut [u8], payload: &[u8]) -> Eval {
    let mut ev = Eval { class: String::new(), dispatched_kinds: vec![], violations: vec![], machinery: None, trace: String::new() };
    let pt = &cfg.ptype;
    let (Some(ptype), Some(ty)) = (cfg.ptype(), cfg.frame_context()) else {
        ev.machinery = Some(format!("unknown packet type {pt}"));
        return ev;
    };
    let (snd, rcv) = ctx.ends(cfg.dir);
    // ---- seal
    let sent = match catch(|| c06::send_fill_into(buf, snd, rcv.cid, ptype, &PN4, Fill::Raw(payload), false)) {
        Ok(Ok(s)) => s,
        Ok(Err(e)) => {
            ev.machinery = Some(format!("cannot seal a {pt} packet with a {}-byte payload: {e}", payload.len()));
            return ev;
        }
        Err(p) => {
            ev.machinery = Some(format!("sealing a {pt} packet with a {}-byte payload panicked: {} at {}", payload.len(), p.message, p.location));
            return ev;
        }
    };
    // ---- the decoder alone (first: a decoder that does not consume would hang the loop)
    let mut ref_panic = None;
    let refr = match reference(payload, ty) {
        Ok(r) => r,
        Err(p) => {
            // the packet-level loop runs the same decoder: let it speak for itself below
            ev.trace.push_str(&format!("decoder alone: PANIC {} at {}; ", p.message, p.location));
            ref_panic = Some(p);
            Reference { frames: vec![], error: None, stuck: false }
        }
    };
    if refr.stuck {
        ev.class = "stuck".into();
        ev.violations.push((
            format!("hang/frame-consumed-nothing/{pt}"),
            format!("FrameReader yielded a frame without consuming input after {} frames of a {}-byte {pt} payload: read_plain_packet would never return (not called)", refr.frames.len(), payload.len()),
        ));
        return ev;
    }
    // ---- the packet through the receive path and the frame loop
    let out = match open_and_read(&rcv.view(), &sent.wire, PN4.expected) {
        Step::Done(o) => o,
        Step::Machinery(e) => {
            ev.machinery = Some(format!("{pt} packet with a {}-byte payload did not reach the frame loop: {e}", payload.len()));
            return ev;
        }
        Step::Panic(p) => {
            ev.class = "panic".into();
            ev.trace.push_str(&format!("read_plain_packet: PANIC {} at {}", p.message, p.location));
            ev.violations.push((
                format!("panic/{}", p.class()),
                format!("read_plain_packet panicked on a {pt} packet with a {}-byte payload: {} at {}", payload.len(), p.message, p.location),
            ));
            return ev;
        }
    };
    if out.body[..] != payload[..] || out.reported_type != ty {
        ev.machinery = Some(format!(
            "decrypted {pt} packet exposes {} body bytes as {:?}, sealed {} as {ty:?} (round trip is C06's subject)",
            out.body.len(), out.reported_type, payload.len()
        ));
        return ev;
    }
    ev.dispatched_kinds = kinds_of(&out.dispatched);
    ev.class = match &out.result {
        Ok(()) => "ok".into(),
        Err((k, _)) => format!("err:{k:?}"),
    };
    if let Some(p) = ref_panic {
        // nothing to compare with
        ev.class = "panic".into();
        ev.violations.push((
            format!("panic/{}", p.class()),
            format!("FrameReader run directly on a {}-byte {pt} payload panicked: {} at {} (the frame loop did not)", payload.len(), p.message, p.location),
        ));
        return ev;
    }
    ev.trace.push_str(&format!(
        "decoder alone: {} then {}; read_plain_packet: dispatched {} then {}",
        brief(&refr.frames),
        match &refr.error { None => "end of payload".to_string(), Some(e) => format!("Err({e})") },
        brief(&out.dispatched),
        match &out.result { Ok(()) => "Ok".to_string(), Err((k, t)) => format!("Err({k:?}: {t})") },
    ));

    // ---- clause 2: a packet containing no frames
    if payload.is_empty() {
        match &out.result {
            Ok(()) => ev.violations.push((
                format!("payload/empty/accepted-without-error/{pt}"),
                format!("a {pt} packet containing no frames was processed without error (RFC 9000 §12.4: PROTOCOL_VIOLATION)"),
            )),
            Err((ErrorKind::ProtocolViolation, _)) => {}
            Err((k, t)) => ev.violations.push((
                format!("payload/empty/wrong-error-kind/{pt}"),
                format!("a {pt} packet containing no frames raised {k:?} ({t}); RFC 9000 §12.4 prescribes PROTOCOL_VIOLATION"),
            )),
        }
        if !out.dispatched.is_empty() {
            ev.violations.push((
                format!("payload/frames-differ/{pt}"),
                format!("{} frames dispatched out of an empty {pt} payload: {}", out.dispatched.len(), brief(&out.dispatched)),
            ));
        }
        return ev;
    }
    // PADDING only: the packet contains frames, all of them legal in every packet type
    if payload.iter().all(|b| *b == 0) {
        if let Err((k, t)) = &out.result {
            ev.violations.push((
                format!("payload/padding-only/rejected/{pt}"),
                format!("a {pt} packet of {} PADDING bytes raised {k:?} ({t})", payload.len()),
            ));
        }
    }
    // ---- clause 3: the verdict is the decoder's
    match (&refr.error, &out.result) {
        (None, Ok(())) => {
            if out.dispatched != refr.frames {
                ev.violations.push((
                    format!("payload/frames-differ/{pt}"),
                    format!("{}-byte {pt} payload: decoder yields {}, the frame loop dispatched {}", payload.len(), brief(&refr.frames), brief(&out.dispatched)),
                ));
            }
        }
        (None, Err((k, t))) => ev.violations.push((
            format!("payload/error-without-decoder-error/{pt}"),
            format!("{}-byte {pt} payload decodes completely ({}), yet the frame loop raised {k:?} ({t})", payload.len(), brief(&refr.frames)),
        )),
        (Some(e), Ok(())) => ev.violations.push((
            format!("payload/error-swallowed/{pt}"),
            format!("{}-byte {pt} payload: decoder fails after {} frames with `{e}`, the frame loop returned Ok after dispatching {}", payload.len(), refr.frames.len(), brief(&out.dispatched)),
        )),
        (Some(e), Err((k, t))) => {
            let want = QuicError::from(e.clone()).kind();
            if *k != want {
                ev.violations.push((
                    format!("payload/error-kind-differs/{pt}"),
                    format!("{}-byte {pt} payload: decoder error `{e}` maps to {want:?}, the frame loop raised {k:?} ({t})", payload.len()),
                ));
            }
            if out.dispatched != refr.frames {
                ev.violations.push((
                    format!("payload/frames-before-error-differ/{pt}"),
                    format!("{}-byte {pt} payload: decoder yields {} before `{e}`, the frame loop dispatched {}", payload.len(), brief(&refr.frames), brief(&out.dispatched)),
                ));
            }
        }
    }
    ev
}

// ------------------------------------------------------------------------------------------
// chunks
// ------------------------------------------------------------------------------------------

#[derive(Default)]
struct Tally {
    payloads: u64,
    ok: u64,
    errors: BTreeMap<String, u64>,
    panics: u64,
    frames_dispatched: u64,
    kinds: BTreeSet<String>,
    nontrivial: u64,
    no_frames_packets: u64,
    padding_only: u64,
    /// work items not started because the wall-clock cap had passed
    skipped_by_cap: u64,
    by_len: BTreeMap<usize, u64>,
    /// signature -> (detail, replay, hits)
    found: BTreeMap<String, (String, Value, u64)>,
    /// outcome class -> first case
    samples: BTreeMap<String, Value>,
    machinery: Option<String>,
}

impl Tally {
    fn merge(&mut self, o: Tally) {
        self.payloads += o.payloads;
        self.ok += o.ok;
        self.panics += o.panics;
        self.frames_dispatched += o.frames_dispatched;
        self.nontrivial += o.nontrivial;
        self.no_frames_packets += o.no_frames_packets;
        self.padding_only += o.padding_only;
        self.skipped_by_cap += o.skipped_by_cap;
        for (k, n) in o.errors {
            *self.errors.entry(k).or_default() += n;
        }
        for (k, n) in o.by_len {
            *self.by_len.entry(k).or_default() += n;
        }
        self.kinds.extend(o.kinds);
        for (sig, (detail, replay, hits)) in o.found {
            match self.found.get_mut(&sig) {
                Some(e) => e.2 += hits,
                None => {
                    self.found.insert(sig, (detail, replay, hits));
                }
            }
        }
        for (k, s) in o.samples {
            self.samples.entry(k).or_insert(s);
        }
        if self.machinery.is_none() {
            self.machinery = o.machinery;
        }
    }
}

fn replay_json(cfg: &Config, payload: &[u8]) -> Value {
    json!({"sub": cfg.ptype, "config": cfg, "payload_hex": hex(payload)})
}

/// A unit of work: one configuration (own key material) and a set of payloads.
enum Work {
    /// a contiguous range of the payload list
    List(usize, std::ops::Range<usize>),
    /// thorough: all 65536 three-byte payloads starting with this byte
    Prefix3(usize, u8),
}

fn run_chunk<P: AsRef<[u8]>>(cfg: &Config, payloads: impl Iterator<Item = P>) -> Tally {
    let mut t = Tally::default();
    let ctx = match catch(|| Ctx::new(&cfg.suite, cfg.cid_len)) {
        Ok(Ok(c)) => c,
        Ok(Err(e)) => {
            t.machinery = Some(format!("key material for {}: {e}", cfg.label()));
            return t;
        }
        Err(p) => {
            t.machinery = Some(format!("key material for {}: PANIC {} at {}", cfg.label(), p.message, p.location));
            return t;
        }
    };
    let mut buf = vec![0u8; DATAGRAM];
    for p in payloads {
        let p: &[u8] = p.as_ref();
        let ev = evaluate(cfg, &ctx, &mut buf, p);
        if let Some(m) = ev.machinery {
            t.machinery = Some(m);
            return t;
        }
        t.payloads += 1;
        *t.by_len.entry(p.len()).or_default() += 1;
        match ev.class.as_str() {
            "ok" => t.ok += 1,
            "panic" | "stuck" => t.panics += 1,
            other => *t.errors.entry(other.trim_start_matches("err:").to_string()).or_default() += 1,
        }
        if p.is_empty() {
            t.no_frames_packets += 1;
        } else if p.iter().all(|b| *b == 0) {
            t.padding_only += 1;
        }
        if ev.class != "ok" || !ev.dispatched_kinds.is_empty() {
            t.nontrivial += 1;
        }
        t.frames_dispatched += ev.dispatched_kinds.len() as u64;
        // samples: the first payload of each (outcome, first frame kind) class
        let key = format!("{} after {}", ev.class, ev.dispatched_kinds.first().map(|s| s.as_str()).unwrap_or("no frame"));
        if !t.samples.contains_key(&key) {
            t.samples.insert(key, json!({"config": cfg.label(), "payload_hex": hex(p), "what": ev.trace}));
        }
        t.kinds.extend(ev.dispatched_kinds);
        for (sig, detail) in ev.violations {
            match t.found.get_mut(&sig) {
                Some(e) => e.2 += 1,
                None => {
                    let detail = format!("{detail} [{}; payload {}]", cfg.label(), hex(&p[..p.len().min(48)]));
                    t.found.insert(sig, (detail, replay_json(cfg, p), 1));
                }
            }
        }
    }
    t
}

// ------------------------------------------------------------------------------------------
// entry points
// ------------------------------------------------------------------------------------------

fn unhex(s: &str) -> Option<Vec<u8>> {
    if s.len() % 2 != 0 {
        return None;
    }
    (0..s.len() / 2).map(|i| u8::from_str_radix(s.get(2 * i..2 * i + 2)?, 16).ok()).collect()
}

fn replay(path: &std::path::Path) -> i32 {
    let r = mc_core::report::load_replay(path);
    let cfg: Config = match serde_json::from_value(r["config"].clone()) {
        Ok(c) => c,
        Err(e) => {
            eprintln!("replay: bad config: {e}");
            return 2;
        }
    };
    let Some(payload) = r["payload_hex"].as_str().and_then(unhex) else {
        eprintln!("replay: bad payload_hex");
        return 2;
    };
    println!("replay: {} packet, payload ({} bytes) {}", cfg.label(), payload.len(), hex(&payload));
    let ctx = match catch(|| Ctx::new(&cfg.suite, cfg.cid_len)) {
        Ok(Ok(c)) => c,
        Ok(Err(e)) => {
            eprintln!("replay: machinery error: {e}");
            return 2;
        }
        Err(p) => {
            eprintln!("replay: machinery error: PANIC {} at {}", p.message, p.location);
            return 2;
        }
    };
    let mut buf = vec![0u8; DATAGRAM];
    let ev = evaluate(&cfg, &ctx, &mut buf, &payload);
    if let Some(m) = ev.machinery {
        eprintln!("replay: machinery error: {m}");
        return 2;
    }
    println!("replay: outcome {}: {}", ev.class, ev.trace);
    if ev.violations.is_empty() {
        println!("replay: no violation");
        return 0;
    }
    for (sig, detail) in &ev.violations {
        println!("replay: {sig} — {detail}");
    }
    1
}

pub fn run(args: &Args) -> i32 {
    if let Some(p) = &args.replay {
        mc_core::panics::install_hook();
        return replay(p);
    }
    let mut report = Report::new(args, "exploration");
    report.assume("packets: sealed by C06's send path (real PacketWriter::new_long/new_short, payload bytes through BufMut, encrypt_and_protect_packet) with real keys (Initial: rustls::quic::Keys::initial; Handshake / 0-RTT / 1-RTT: a real in-process rustls handshake, fresh per work chunk — key bytes differ from run to run, verdicts do not), 4-byte packet number encoding so that pn + payload + tag >= 20 also for the packet with no frames; opened by PacketReader → CipherPacket::decrypt_{long,short}_packet; a packet that does not come back with the sealed body is a machinery error (exit 2), the round trip being C06's subject");
    report.assume("function under test: qconnection::space::verif_read_plain_packet = read_plain_packet (the frame loop of space::{initial,handshake,data}) with a dispatch closure that records the frames; what the spaces' own dispatch closures do with a frame (pipes into streams, flow control, …) is the subject of other properties");
    report.assume("reference for a non-empty payload: qbase::frame::FrameReader run directly on the same bytes with a packet type built by the harness; which error kind the decoder picks is judged by the h-base part of C03, here only that the packet level reports it (QuicError::from(e).kind()) after dispatching exactly the frames decoded before it");

    let pl = match payloads(args.thorough) {
        Ok(p) => p,
        Err(e) => {
            eprintln!("machinery error: {e}");
            return 2;
        }
    };
    let cfgs: Vec<Config> = configs(args.thorough).into_iter().filter(|c| args.wants(&c.ptype)).collect();
    // work items: (config, payloads); each builds its own keys
    let per_cfg = (mc_core::jobs() * 2).div_ceil(cfgs.len().max(1)).clamp(2, 32);
    // thorough: the first configuration of each packet type also gets every 3-byte payload
    // (generated, not stored); its 3-byte payloads of the list are then left to that sweep
    let full3 = |ci: usize| args.thorough && cfgs[ci].cid_len == 8;
    let mut items: Vec<Work> = Vec::new();
    for (ci, _) in cfgs.iter().enumerate() {
        for r in mc_core::par::ranges(pl.all.len(), per_cfg) {
            items.push(Work::List(ci, r));
        }
    }
    for (ci, _) in cfgs.iter().enumerate() {
        if full3(ci) {
            items.extend((0..=255u8).map(|a| Work::Prefix3(ci, a)));
        }
    }
    let started = std::time::Instant::now();
    let cap = std::time::Duration::from_secs(600);
    let tallies = par_map(&items, |w| match w {
        Work::List(ci, r) => {
            let skip3 = full3(*ci);
            run_chunk(&cfgs[*ci], pl.all[r.clone()].iter().filter(|p| !(skip3 && p.len() == 3)))
        }
        Work::Prefix3(ci, a) => {
            if started.elapsed() > cap {
                return Tally { skipped_by_cap: 1, ..Default::default() };
            }
            let a = *a;
            run_chunk(&cfgs[*ci], (0..=0xffffu16).map(move |x| [a, (x >> 8) as u8, x as u8]))
        }
    });

    let mut per_type: BTreeMap<String, (Tally, Vec<String>)> = BTreeMap::new();
    let mut skipped = 0;
    for (w, t) in items.iter().zip(tallies) {
        if let Some(m) = &t.machinery {
            eprintln!("machinery error: {m}");
            return 2;
        }
        skipped += t.skipped_by_cap;
        let (Work::List(ci, _) | Work::Prefix3(ci, _)) = w;
        let cfg = &cfgs[*ci];
        let e = per_type.entry(cfg.ptype.clone()).or_default();
        e.0.merge(t);
        let l = cfg.label();
        if !e.1.contains(&l) {
            e.1.push(l);
        }
    }

    if skipped > 0 {
        report.caps_hit.push(format!("wall-clock cap {cap:?}: {skipped} of the 256-per-packet-type first-byte blocks of the all-3-byte-payloads sweep not run"));
    }
    for (pt, (t, labels)) in per_type {
        for (sig, (detail, replay, hits)) in &t.found {
            report.violation(sig, detail, replay.clone());
            for _ in 1..*hits {
                report.violation(sig, "", Value::Null);
            }
        }
        let mut extra = Map::new();
        extra.insert("configurations".into(), json!(labels));
        extra.insert("payloads".into(), json!(t.payloads));
        extra.insert("listed_payloads_per_configuration".into(), json!(pl.all.len()));
        extra.insert(
            "payload_sets".into(),
            json!({
                "all byte strings of length 0..=2": pl.short,
                "valid encodings (qbase writers)": pl.valid_encodings,
                "their truncations and +1 PADDING byte": pl.derived_from_valid,
                "3-byte strings over the boundary alphabet": pl.alphabet3,
                "all 3-byte strings (generated; cid-8 configuration only)": if args.thorough { 1u64 << 24 } else { 0 },
                "distinct": pl.all.len(),
            }),
        );
        let mut by_len: BTreeMap<String, u64> = BTreeMap::new();
        for (len, n) in &t.by_len {
            let k = match *len {
                0..=3 => format!("{len}"),
                4..=15 => "4..=15".to_string(),
                _ => "16 and more".to_string(),
            };
            *by_len.entry(k).or_default() += n;
        }
        extra.insert("by_payload_length".into(), json!(by_len));
        extra.insert("ok".into(), json!(t.ok));
        extra.insert("errors_by_kind".into(), json!(t.errors));
        extra.insert("panics".into(), json!(t.panics));
        extra.insert("packets_with_no_frames".into(), json!(t.no_frames_packets));
        extra.insert("padding_only_payloads".into(), json!(t.padding_only));
        extra.insert("frames_dispatched".into(), json!(t.frames_dispatched));
        extra.insert("distinct_frame_kinds_dispatched".into(), json!(t.kinds.len()));
        extra.insert("frame_kinds_dispatched".into(), json!(t.kinds));
        // samples: the no-frames packet first, then one per outcome class
        let mut samples: Vec<Value> = Vec::new();
        for want in ["err:ProtocolViolation after no frame", "ok after Padding", "err:FrameEncoding after no frame"] {
            if let Some(s) = t.samples.get(want) {
                samples.push(s.clone());
            }
        }
        extra.insert("first_case_per_outcome_class".into(), json!(t.samples));
        report.sub(
            &pt,
            Coverage {
                evaluations: t.payloads,
                distinct_nontrivial: t.nontrivial,
                exhaustive: skipped == 0,
                rule: "evaluations = distinct (configuration, payload) pairs sealed, decrypted and run through read_plain_packet; non-trivial = those that dispatched at least one frame or raised an error (every payload does: a packet with no frames is an error)".into(),
                samples,
                extra,
                ..Default::default()
            },
        );
    }
    report.finish()
}
