//! C01 / C11 (send side) / C12 (local opens) — front-ends of the stream pipe (`pipe.rs`).
use std::time::Duration;

use mc_core::{Args, ExploreCfg, Report, explore};
use serde_json::json;

use crate::pipe::{Cfg, Pipe, SideCfg, Step};

fn scripts() -> Vec<(&'static str, [Vec<Step>; 2])> {
    use Step::*;
    vec![
        (
            "bidi-echo",
            [
                vec![OpenBi, Write { slot: 0, n: 2 }, Write { slot: 0, n: 3 }, Shutdown { slot: 0 }],
                vec![AcceptBi, Write { slot: 0, n: 1 }, Shutdown { slot: 0 }],
            ],
        ),
        (
            "uni-each-way",
            [
                vec![OpenUni, Write { slot: 0, n: 3 }, Write { slot: 0, n: 2 }, Shutdown { slot: 0 }, AcceptUni],
                vec![AcceptUni, OpenUni, Write { slot: 1, n: 2 }, Flush { slot: 1 }, Shutdown { slot: 1 }],
            ],
        ),
        (
            "reset",
            [
                vec![OpenBi, Write { slot: 0, n: 3 }, Cancel { slot: 0, code: 7 }],
                vec![AcceptBi, Write { slot: 0, n: 2 }, Shutdown { slot: 0 }],
            ],
        ),
        (
            "stop-sending",
            [
                vec![OpenBi, Write { slot: 0, n: 2 }, Write { slot: 0, n: 2 }, Shutdown { slot: 0 }],
                vec![AcceptBi, Stop { slot: 0, code: 9 }, Write { slot: 0, n: 1 }, Shutdown { slot: 0 }],
            ],
        ),
        (
            "two-streams",
            [
                vec![OpenBi, OpenUni, Write { slot: 0, n: 3 }, Write { slot: 1, n: 3 }, Shutdown { slot: 1 }, Shutdown { slot: 0 }],
                vec![AcceptBi, AcceptUni],
            ],
        ),
        ("fin-only", [vec![OpenUni, Shutdown { slot: 0 }], vec![AcceptUni]]),
    ]
}

/// Smaller scripts for the flow-control search (tiny windows multiply the states).
fn c11_scripts() -> Vec<(&'static str, [Vec<Step>; 2])> {
    use Step::*;
    vec![
        ("fc-bidi", [vec![OpenBi, Write { slot: 0, n: 3 }, Write { slot: 0, n: 3 }, Shutdown { slot: 0 }], vec![AcceptBi, Write { slot: 0, n: 3 }]]),
        ("fc-bidi-s", [vec![OpenBi, Write { slot: 0, n: 3 }, Shutdown { slot: 0 }], vec![AcceptBi, Write { slot: 0, n: 3 }]]),
        ("fc-uni", [vec![OpenUni, Write { slot: 0, n: 4 }, Write { slot: 0, n: 3 }], vec![AcceptUni]]),
        ("fc-uni-back", [vec![AcceptUni], vec![OpenUni, Write { slot: 0, n: 4 }, Write { slot: 0, n: 3 }, Shutdown { slot: 0 }]]),
        ("fc-two", [vec![OpenBi, OpenUni, Write { slot: 0, n: 4 }, Write { slot: 1, n: 4 }], vec![AcceptBi, AcceptUni]]),
        // a reset while written bytes are still held back by a window: the final size is the
        // credit the stream consumes at both levels
        // (one write larger than any window: the writer accepts it whole once it is ready)
        ("fc-cancel", [vec![OpenUni, Write { slot: 0, n: 6 }, Cancel { slot: 0, code: 7 }], vec![AcceptUni]]),
        ("fc-cancel-back", [vec![AcceptUni], vec![OpenUni, Write { slot: 0, n: 6 }, Cancel { slot: 0, code: 7 }]]),
    ]
}

pub fn base_cfg(script: [Vec<Step>; 2], cap: usize) -> Cfg {
    Cfg {
        client: SideCfg::roomy(),
        server: SideCfg::roomy(),
        cap,
        demand_concurrency: false,
        scripts: script,
        read_caps: vec![8, 2],
        max_packets: 6,
    }
}

/// Permutations of (2,5,9) over (bidi_local, bidi_remote, uni): a wrong parameter choice
/// changes an observable limit.
fn limit_perms() -> Vec<(u64, u64, u64)> {
    vec![(2, 5, 9), (2, 9, 5), (5, 2, 9), (5, 9, 2), (9, 2, 5), (9, 5, 2)]
}

pub fn replay(args: &Args) -> i32 {
    let r = mc_core::report::load_replay(args.replay.as_ref().unwrap());
    let cfg: Cfg = match serde_json::from_value(r["config"].clone()) {
        Ok(c) => c,
        Err(e) => {
            eprintln!("replay config does not parse: {e}");
            return 2;
        }
    };
    match mc_core::explore::replay(|| Pipe::new(cfg.clone()), &r["history"]) {
        Ok(()) => {
            println!("replay: no violation");
            0
        }
        Err(f) => {
            println!("replay: {} — {}", f.sig, f.detail);
            1
        }
    }
}

/// `prefix`: which oracle family this check files (`c01/`, `c11/`, `c12/`); `pipe/` and
/// `panic/` signatures are filed by every front-end.
pub fn run(args: &Args, prefix: &str) -> i32 {
    if args.replay.is_some() {
        return replay(args);
    }
    let mut report = Report::new(args, "model_checking");
    report.assume("two unmodified endpoints; packets travel as bytes and are re-parsed by the real FrameReader; ack/loss feedback mirrors AckDataSpace::recv_frame / DataTracker::may_loss");
    report.assume("canonical state = Debug dumps of the real DataStreams, FlowController, reliable-frame deque of both endpoints (pointer values masked) + in-flight packets + reference model");
    report.assume("application tasks are polled like an executor would: a parked task is polled again only after its waker fired; at quiescence every parked task is polled once more and one that then makes progress is a lost wake-up");
    let all = std::env::var_os("VERIF_ALLSIGS").is_some();
    let keep = |sig: &str| all || sig.starts_with(prefix) || sig.starts_with("pipe/") || sig.starts_with("panic/");

    // (name, cfg, deviation budget)
    let mut configs: Vec<(String, Cfg, u32)> = Vec::new();
    let th = args.thorough;
    match prefix {
        "c01/" => {
            use Step::*;
            let small: Vec<(&str, [Vec<Step>; 2], usize)> = vec![
                ("fin-only", [vec![OpenUni, Shutdown { slot: 0 }], vec![AcceptUni]], 26),
                ("bidi-3", [vec![OpenBi, Write { slot: 0, n: 3 }, Shutdown { slot: 0 }], vec![AcceptBi, Shutdown { slot: 0 }]], 30),
                ("uni-2x2", [vec![OpenUni, Write { slot: 0, n: 2 }, Write { slot: 0, n: 2 }, Shutdown { slot: 0 }], vec![AcceptUni]], 26),
                // no FIN: nothing but the data itself can wake the reader
                ("uni-open-ended", [vec![OpenUni, Write { slot: 0, n: 2 }, Write { slot: 0, n: 2 }, Flush { slot: 0 }], vec![AcceptUni]], 26),
                ("bidi-open-ended", [vec![OpenBi, Write { slot: 0, n: 2 }, Write { slot: 0, n: 1 }, Flush { slot: 0 }], vec![AcceptBi, Write { slot: 0, n: 2 }, Flush { slot: 0 }]], 30),
                // a zero-length write hands over nothing and must not disturb completion
                ("uni-empty-write", [vec![OpenUni, Write { slot: 0, n: 2 }, Write { slot: 0, n: 0 }, Shutdown { slot: 0 }], vec![AcceptUni]], 26),
                ("reset", [vec![OpenBi, Write { slot: 0, n: 3 }, Cancel { slot: 0, code: 7 }], vec![AcceptBi, Write { slot: 0, n: 2 }, Shutdown { slot: 0 }]], 1200),
                ("stop", [vec![OpenUni, Write { slot: 0, n: 2 }, Write { slot: 0, n: 1 }, Shutdown { slot: 0 }], vec![AcceptUni, Stop { slot: 0, code: 9 }]], 64),
            ];
            for (name, sc, cap) in small {
                configs.push((format!("{name}-cap{cap}-d1"), base_cfg(sc.clone(), cap), 1));
                if !th {
                    configs.push((format!("{name}-cap{cap}-d2"), base_cfg(sc.clone(), cap), 2));
                }
                // three deviations on the smallest data script: a real loss, a spurious loss of a
                // delivered neighbour and the merged retransmission that follows
                if name == "uni-2x2" {
                    configs.push((format!("{name}-cap{cap}-d3"), base_cfg(sc.clone(), cap), 3));
                }
                if th {
                    configs.push((format!("{name}-cap{cap}-d2"), base_cfg(sc.clone(), cap), 2));
                    configs.push((format!("{name}-cap27-d2"), base_cfg(sc, 27), 2));
                }
            }
            if !th {
                // the larger scripts over a network with at most one deviation, one capacity
                for (name, sc) in scripts() {
                    if matches!(name, "bidi-echo" | "two-streams") {
                        configs.push((format!("{name}-cap30-d1"), base_cfg(sc.clone(), 30), 1));
                    }
                }
            }
            if th {
                for (name, sc) in scripts() {
                    for cap in [26, 30, 64, 1200] {
                        configs.push((format!("{name}-cap{cap}-d1"), base_cfg(sc.clone(), cap), 1));
                    }
                    configs.push((format!("{name}-cap30-d2"), base_cfg(sc.clone(), 30), 2));
                }
                // the large variant: the 4096-token round-robin cursor is exhausted and rotated
                let large = [
                    vec![OpenBi, OpenUni, Write { slot: 0, n: 9000 }, Write { slot: 1, n: 9000 }, Shutdown { slot: 0 }, Shutdown { slot: 1 }],
                    vec![AcceptBi, AcceptUni, Shutdown { slot: 0 }],
                ];
                let mut c = base_cfg(large, 1200);
                c.max_packets = 24;
                c.read_caps = vec![4096];
                configs.push(("large-2x9000-cap1200-d1".into(), c, 1));
            }
        }
        "c11/" => {
            // tiny, unequal flow-control parameters on both sides: permutations of (2,5,9)
            let perms = limit_perms();
            let mk = |sc: [Vec<Step>; 2], i: usize, max_data: u64| {
                let mut c = base_cfg(sc, 64);
                c.read_caps = vec![8];
                c.max_packets = 5;
                let (bl, br, u) = perms[i];
                let (bl2, br2, u2) = perms[(i + 2) % 6];
                c.client = SideCfg { max_data, bidi_local: bl, bidi_remote: br, uni: u, streams_bidi: 4, streams_uni: 4 };
                c.server = SideCfg { max_data: 64 - max_data.min(60), bidi_local: bl2, bidi_remote: br2, uni: u2, streams_bidi: 4, streams_uni: 4 };
                c
            };
            for (name, sc) in c11_scripts() {
                let picks: Vec<usize> = if th { (0..6).collect() } else { vec![0, 3, 4] };
                for &i in &picks {
                    for max_data in if th { vec![0u64, 4, 64] } else { vec![4] } {
                        // quick: the searches that close within seconds — the uni script with one
                        // deviation for three parameter permutations, the two-stream and bidi
                        // scripts over a faultless network for one permutation each;
                        // thorough: every script x permutation x connection window, one deviation
                        if !th {
                            let keep = match name {
                                "fc-uni" => true,
                                "fc-two" => i == 0,
                                "fc-bidi-s" => i == 4,
                                "fc-cancel" => i == 0 || i == 3,
                                "fc-cancel-back" => i == 0,
                                _ => false,
                            };
                            if !keep {
                                continue;
                            }
                        }
                        let d = if th || matches!(name, "fc-uni" | "fc-cancel") { 1 } else { 0 };
                        configs.push((format!("{name}-perm{i}-md{max_data}-d{d}"), mk(sc.clone(), i, max_data), d));
                    }
                }
            }
        }
        _ => {
            use Step::*;
            let open_twice_bi = [
                vec![OpenBi, Write { slot: 0, n: 1 }, Shutdown { slot: 0 }, OpenBi, Write { slot: 1, n: 1 }, Shutdown { slot: 1 }],
                vec![AcceptBi, Shutdown { slot: 0 }, AcceptBi, Shutdown { slot: 1 }],
            ];
            let open_twice_uni = [
                vec![OpenUni, Write { slot: 0, n: 1 }, Shutdown { slot: 0 }, OpenUni, Write { slot: 1, n: 1 }, Shutdown { slot: 1 }],
                vec![AcceptUni, AcceptUni],
            ];
            let skip_ahead = [
                // the second stream is used first: the peer must be offered both, once each
                vec![OpenUni, OpenUni, Write { slot: 1, n: 1 }, Shutdown { slot: 1 }, Write { slot: 0, n: 1 }, Shutdown { slot: 0 }],
                vec![AcceptUni, AcceptUni],
            ];
            for (name, sc) in [("open-twice-bi", open_twice_bi), ("open-twice-uni", open_twice_uni), ("skip-ahead", skip_ahead)] {
                // unequal limits for the two kinds: a limit taken from the wrong kind is observable
                for (sb, su) in if th { vec![(0u64, 0u64), (1, 1), (1, 0), (0, 2), (3, 3), (1, 3), (3, 1)] } else { vec![(1, 3), (3, 1)] } {
                    for demand in [false, true] {
                        // quick: the limit-1 searches are the large ones; keep one strategy each
                        if !th && name == "open-twice-bi" && sb == 1 && demand {
                            continue;
                        }
                        let mut c = base_cfg(sc.clone(), 64);
                        c.read_caps = vec![8];
                        c.client.streams_bidi = sb;
                        c.client.streams_uni = su;
                        c.server.streams_bidi = sb;
                        c.server.streams_uni = su;
                        c.demand_concurrency = demand;
                        let d = if th || name != "open-twice-bi" { 1 } else { 0 };
                        configs.push((format!("{name}-streams{sb}{su}-{}-d{d}", if demand { "demand" } else { "consistent" }), c, d));
                    }
                }
            }
        }
    }
    if let Some(only) = &args.only {
        configs.retain(|(n, _, _)| n.contains(only.as_str()));
    }
    if std::env::var_os("VERIF_CANONLEN").is_some() {
        for (name, cfg, _) in &configs {
            use mc_core::System;
            let mut p = Pipe::new(cfg.clone());
            let t = std::time::Instant::now();
            let mut n = 0;
            for _ in 0..40 {
                let ops = p.ops();
                if ops.is_empty() { break; }
                let _ = p.step(&ops[0]);
                n += 1;
            }
            let el = t.elapsed();
            let t2 = std::time::Instant::now();
            for _ in 0..999 { let _ = p.canon(); }
            let c = p.canon();
            let t3 = std::time::Instant::now();
            let mut q = Pipe::new(cfg.clone());
            let fr = q.finish();
            eprintln!("{name}: finish from initial state: {:?} in {:?}, {} packets", fr.map_err(|f| f.sig), t3.elapsed(), q.packet_count());
            eprintln!("{name}: {n} default steps in {:?}; canon {} bytes in {:?}", el, c.len(), t2.elapsed());
            if std::env::var_os("VERIF_CANONDUMP").is_some() { eprintln!("{c}"); }
        }
        return 0;
    }
    // thorough: about 40 minutes in total, shared evenly (at least 20 s per configuration); a
    // configuration that does not close within its share is reported in caps_hit with the depth
    // that was fully explored
    let per_cfg_cap = Duration::from_secs(if args.thorough { (2400 / configs.len().max(1) as u64).clamp(20, 600) } else { 15 });
    for (name, cfg, budget) in configs {
        let ecfg = ExploreCfg {
            max_depth: 60,
            max_cost: budget,
            check_finish: true,
            time_cap: per_cfg_cap,
            max_states: 3_000_000,
            ..Default::default()
        };
        let c2 = cfg.clone();
        let mut stats = explore(move || Pipe::new(c2.clone()), &ecfg);
        stats.violations.retain(|k, _| keep(k));
        mc_core::explore::file_violations(&mut report, &name, serde_json::to_value(&cfg).unwrap_or(json!(null)), &stats);
        report.sub(
            &name,
            stats.coverage(&format!(
                "BFS with canonical-state dedup over all interleavings of the two application scripts, reads (buffer 8/2), packet assembly (capacity {}), and network fates with ≤ {budget} deviations (reorder, deliver-without-ack + late ack, loss incl. spurious, duplicate, late arrival after loss); from every distinct state the perfect-network completion run judges liveness",
                cfg.cap
            )),
        );
    }
    report.finish()
}
