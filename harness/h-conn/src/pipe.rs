//! The stream pipe: two real endpoints' stream layers wired back to back.
//!
//! Each endpoint is the real `qconnection::DataStreams` (qrecovery) + real
//! `qconnection::FlowController` (qbase::flow) + real `ArcReliableFrameDeque` + real
//! `ArcParameters`, with frames leaving through `try_load_frames_into` /
//! `try_load_data_into` into a capacity-limited capture packet, travelling as *bytes*,
//! re-parsed by the real `FrameReader` and delivered through the real
//! `FlowControlledDataStreams` composition (hook `verif_flow_controlled_streams`).
//! Acknowledgement / loss feed-back mirrors `AckDataSpace::recv_frame` and
//! `DataTracker::may_loss` of qconnection/src/space*.rs.
//!
//! The harness "network" holds the packets; the explorer decides their fate. One harness,
//! three oracles: C01 (reliable in-order exactly-once delivery + liveness), C11 (flow
//! control, send side), C12 (stream-count limits on local opens).
use std::{
    collections::{BTreeMap, BTreeSet},
    future::Future,
    pin::Pin,
    sync::Arc,
    task::{Context, Poll, Wake, Waker},
};

use bytes::{BufMut, Bytes};
use mc_core::{Fail, System, ensure};
use qbase::{
    cid::ConnectionId,
    frame::{
        Frame, FrameReader, ReliableFrame, StreamCtlFrame, StreamFrame,
        io::{ReceiveFrame, SendFrame},
    },
    net::tx::ArcSendWakers,
    packet::{RecordFrame, r#type::Type},
    param::{ArcParameters, ClientParameters, ParameterId, Parameters, ServerParameters},
    role::Role,
    sid::{Dir, StreamId, handy::{ConsistentConcurrency, DemandConcurrency}},
    util::ContinuousData,
};
use qconnection::{ArcReliableFrameDeque, DataStreams, FlowController, GuaranteedFrame, StreamReader, StreamWriter};
use qrecovery::{recv::StopSending, send::CancelStream};
use serde::{Deserialize, Serialize};

// ------------------------------------------------------------------------------------------
// configuration
// ------------------------------------------------------------------------------------------

#[derive(Debug, Clone, Serialize, Deserialize)]
pub struct SideCfg {
    pub max_data: u64,
    pub bidi_local: u64,
    pub bidi_remote: u64,
    pub uni: u64,
    pub streams_bidi: u64,
    pub streams_uni: u64,
}

impl SideCfg {
    pub fn roomy() -> SideCfg {
        SideCfg { max_data: 1 << 20, bidi_local: 1 << 20, bidi_remote: 1 << 20, uni: 1 << 20, streams_bidi: 4, streams_uni: 4 }
    }
}

/// One step of an application script.
#[derive(Debug, Clone, Serialize, Deserialize, PartialEq)]
pub enum Step {
    OpenBi,
    OpenUni,
    AcceptBi,
    AcceptUni,
    /// write `n` bytes on the side's `slot`-th stream handle
    Write { slot: usize, n: usize },
    Flush { slot: usize },
    /// finish the stream (FIN) and wait until everything is acknowledged
    Shutdown { slot: usize },
    Cancel { slot: usize, code: u64 },
    Stop { slot: usize, code: u64 },
}

#[derive(Debug, Clone, Serialize, Deserialize)]
pub struct Cfg {
    pub client: SideCfg,
    pub server: SideCfg,
    /// packet capacity in bytes
    pub cap: usize,
    pub demand_concurrency: bool,
    /// application scripts: [client, server]
    pub scripts: [Vec<Step>; 2],
    /// read buffer sizes offered to the explorer
    pub read_caps: Vec<usize>,
    /// max packets a side may have created (bounds the search)
    pub max_packets: usize,
}

// ------------------------------------------------------------------------------------------
// operations
// ------------------------------------------------------------------------------------------

#[derive(Debug, Clone, Serialize, Deserialize)]
pub enum Op {
    /// run (or re-poll) the next step of side's script
    App { side: usize },
    /// read from the side's `slot`-th stream handle into a buffer of `cap` bytes
    Read { side: usize, slot: usize, cap: usize },
    /// assemble one packet at `side`
    Assemble { side: usize },
    /// deliver packet `k` of `from` to the peer; `ack`: acknowledge it at once
    Deliver { from: usize, k: usize, ack: bool },
    /// late acknowledgement of an already delivered packet
    Ack { from: usize, k: usize },
    /// the sender declares packet `k` lost (true loss if undelivered, spurious otherwise)
    Lose { from: usize, k: usize },
    /// deliver an already delivered packet once more
    Dup { from: usize, k: usize },
    /// the network holds packet `k` back (it can be delivered at any later point: reordering / delay)
    Hold { from: usize, k: usize },
}

// ------------------------------------------------------------------------------------------
// capture packet
// ------------------------------------------------------------------------------------------

pub struct Cap {
    buf: Vec<u8>,
    cap: usize,
    frames: Vec<GuaranteedFrame>,
}

impl Cap {
    pub fn new(cap: usize) -> Cap {
        Cap { buf: Vec::with_capacity(cap), cap, frames: Vec::new() }
    }
    pub fn len(&self) -> usize {
        self.buf.len()
    }
    pub fn bytes(&self) -> &[u8] {
        &self.buf
    }
}

unsafe impl BufMut for Cap {
    fn remaining_mut(&self) -> usize {
        self.cap - self.buf.len()
    }
    unsafe fn advance_mut(&mut self, cnt: usize) {
        let new = self.buf.len() + cnt;
        assert!(new <= self.cap, "advance out of the packet: {new} > {}", self.cap);
        unsafe { self.buf.set_len(new) };
    }
    fn chunk_mut(&mut self) -> &mut bytes::buf::UninitSlice {
        let len = self.buf.len();
        let spare = self.cap - len;
        if self.buf.capacity() < self.cap {
            self.buf.reserve(spare);
        }
        let ptr = self.buf.as_mut_ptr();
        unsafe { bytes::buf::UninitSlice::from_raw_parts_mut(ptr.add(len), spare) }
    }
}

impl<D: ContinuousData> RecordFrame<Frame<D>, D> for Cap {
    fn record_frame(&mut self, frame: &Frame<D>) {
        // same conversion as qconnection::tx::PacketWriter::record_frame
        if let Ok(g) = GuaranteedFrame::try_from(frame) {
            self.frames.push(g);
        }
    }
}

// ------------------------------------------------------------------------------------------
// wakers
// ------------------------------------------------------------------------------------------

struct Noop;
impl Wake for Noop {
    fn wake(self: Arc<Self>) {}
}
fn noop_waker() -> Waker {
    Waker::from(Arc::new(Noop))
}

/// The waker of one application task (a script, or the reader of one stream): counts wakes.
#[derive(Default)]
struct TaskWaker(std::sync::atomic::AtomicUsize);
impl Wake for TaskWaker {
    fn wake(self: Arc<Self>) {
        self.0.fetch_add(1, std::sync::atomic::Ordering::SeqCst);
    }
    fn wake_by_ref(self: &Arc<Self>) {
        self.0.fetch_add(1, std::sync::atomic::Ordering::SeqCst);
    }
}

/// An application task as an executor sees it: once a poll returned Pending the task is only
/// polled again after its waker has fired.
#[derive(Default)]
struct Task {
    waker: Arc<TaskWaker>,
    /// `Some(wake count at the time of the Pending poll)` while parked
    parked: Option<usize>,
}

impl Task {
    fn count(&self) -> usize {
        self.waker.0.load(std::sync::atomic::Ordering::SeqCst)
    }
    /// may the executor poll this task now?
    fn runnable(&self) -> bool {
        self.parked.is_none_or(|seen| self.count() > seen)
    }
    fn waker(&self) -> Waker {
        Waker::from(self.waker.clone())
    }
}

// ------------------------------------------------------------------------------------------
// endpoint
// ------------------------------------------------------------------------------------------

#[derive(Debug, Clone, PartialEq)]
enum PktState {
    /// just assembled: the default network delivers it at once
    Flying,
    /// held back by the network (a deviation); may be delivered at any later point
    Held,
    Delivered,
    Acked,
    Lost,
}

struct Pkt {
    bytes: Bytes,
    frames: Vec<GuaranteedFrame>,
    state: PktState,
    delivered_times: u32,
}

/// Reference model of one direction of one stream.
#[derive(Debug, Clone, Default)]
pub struct RefStream {
    /// bytes the application has successfully handed to the writer
    written: Vec<u8>,
    fin: bool,
    reset: Option<u64>,
    stopped: Option<u64>,
    /// bytes the peer application has read
    read: Vec<u8>,
    eof_seen: bool,
    reset_seen: bool,
    shutdown_done: bool,
    flush_done_at: Option<usize>,
    /// distinct byte offsets ever put into a STREAM frame
    sent: BTreeSet<u64>,
    /// final size announced in a RESET_STREAM frame
    reset_final: Option<u64>,
}

pub(crate) struct Handle {
    pub(crate) sid: StreamId,
    pub(crate) writer: Option<StreamWriter>,
    pub(crate) reader: Option<StreamReader>,
}

pub(crate) struct Endpoint {
    role: Role,
    reliable: ArcReliableFrameDeque,
    flow: FlowController,
    streams: DataStreams,
    params: ArcParameters,
    rx_data: Box<dyn Fn((StreamFrame, Bytes)) -> Result<(), qbase::error::Error> + Send + Sync>,
    rx_ctl: Box<dyn Fn(StreamCtlFrame) -> Result<(), qbase::error::Error> + Send + Sync>,
    handles: Vec<Handle>,
    pc: usize,
    pkts: Vec<Pkt>,
    /// limits this endpoint has *received* from its peer (what it must respect when sending)
    known_max_data: u64,
    known_stream_limit: BTreeMap<u64, u64>,
    known_max_streams: [u64; 2],
    /// limits this endpoint has advertised (monotonicity)
    adv_max_data: u64,
    adv_stream_limit: BTreeMap<u64, u64>,
    adv_max_streams: [u64; 2],
    /// every (kind, stream, value) ever put on the wire: a retransmitted older MAX_* frame
    /// repeats a value and is not a decrease of the advertised limit
    adv_seen: BTreeSet<(u8, u64, u64)>,
    fresh_bytes_sent: u64,
    /// connection credit claimed by RESET_STREAM final sizes beyond the bytes actually sent
    reset_extra: u64,
    conn_error: Option<String>,
}

fn cid(b: u8) -> ConnectionId {
    ConnectionId::from_slice(&[b; 8])
}

fn client_params(c: &SideCfg) -> ClientParameters {
    let mut p = ClientParameters::default();
    set_common(&mut p, c);
    p.set(ParameterId::InitialSourceConnectionId, cid(1)).unwrap();
    p
}

fn server_params(c: &SideCfg) -> ServerParameters {
    let mut p = ServerParameters::default();
    set_common(&mut p, c);
    p.set(ParameterId::InitialSourceConnectionId, cid(2)).unwrap();
    p.set(ParameterId::OriginalDestinationConnectionId, cid(9)).unwrap();
    p
}

fn set_common<R: qbase::role::IntoRole + Default>(p: &mut qbase::param::core::Parameters<R>, c: &SideCfg) {
    use qbase::varint::VarInt;
    let v = |x: u64| VarInt::from_u64(x).unwrap();
    p.set(ParameterId::InitialMaxData, v(c.max_data)).unwrap();
    p.set(ParameterId::InitialMaxStreamDataBidiLocal, v(c.bidi_local)).unwrap();
    p.set(ParameterId::InitialMaxStreamDataBidiRemote, v(c.bidi_remote)).unwrap();
    p.set(ParameterId::InitialMaxStreamDataUni, v(c.uni)).unwrap();
    p.set(ParameterId::InitialMaxStreamsBidi, v(c.streams_bidi)).unwrap();
    p.set(ParameterId::InitialMaxStreamsUni, v(c.streams_uni)).unwrap();
}

impl Endpoint {
    pub(crate) fn new(role: Role, cfg: &Cfg) -> Endpoint {
        let (local, remote) = match role {
            Role::Client => (&cfg.client, &cfg.server),
            Role::Server => (&cfg.server, &cfg.client),
        };
        let wakers = ArcSendWakers::default();
        let reliable = ArcReliableFrameDeque::with_capacity_and_wakers(8, wakers.clone());
        let ctrl: Box<dyn qbase::sid::ControlStreamsConcurrency> = if cfg.demand_concurrency {
            Box::new(DemandConcurrency)
        } else {
            Box::new(ConsistentConcurrency::new(local.streams_bidi, local.streams_uni))
        };
        // Construction as in qconnection::builder::init_stream_and_datagram: before the
        // handshake the remote parameters are the *default* (empty) set; the real ones are
        // applied by `tls_fin_handler` → `revise_params` / `revise_max_data`.
        let (streams, flow, params) = match role {
            Role::Client => {
                let lp = client_params(local);
                let rp0 = ServerParameters::default();
                let flow = FlowController::new(0, local.max_data, reliable.clone(), wakers.clone());
                let streams = DataStreams::new(Role::Client, &lp, &rp0, ctrl, reliable.clone(), wakers.clone(), None);
                let mut ps = Parameters::new_client(lp, None, cid(9));
                ps.recv_remote_params(server_params(remote)).expect("server params");
                ps.initial_scid_from_peer_need_equal(cid(2)).expect("scid");
                let rp = ps.server().unwrap().clone();
                streams.revise_params(false, rp.as_ref());
                flow.sender.revise_max_data(false, remote.max_data);
                (streams, flow, ArcParameters::from(ps))
            }
            Role::Server => {
                let lp = server_params(local);
                let rp0 = ClientParameters::default();
                let flow = FlowController::new(0, local.max_data, reliable.clone(), wakers.clone());
                let streams = DataStreams::new(Role::Server, &lp, &rp0, ctrl, reliable.clone(), wakers.clone(), None);
                let mut ps = Parameters::new_server(lp);
                ps.recv_remote_params(client_params(remote)).expect("client params");
                ps.initial_scid_from_peer_need_equal(cid(1)).expect("scid");
                let rp = ps.client().unwrap().clone();
                streams.revise_params(false, rp.as_ref());
                flow.sender.revise_max_data(false, remote.max_data);
                (streams, flow, ArcParameters::from(ps))
            }
        };
        let fc = qconnection::space::verif_flow_controlled_streams(streams.clone(), flow.clone());
        let fc2 = fc.clone();
        Endpoint {
            role,
            reliable,
            rx_data: Box::new(move |f| ReceiveFrame::<(StreamFrame, Bytes)>::recv_frame(&fc, f)),
            rx_ctl: Box::new(move |f| ReceiveFrame::<StreamCtlFrame>::recv_frame(&fc2, f)),
            flow,
            streams,
            params,
            handles: Vec::new(),
            pc: 0,
            pkts: Vec::new(),
            known_max_data: remote.max_data,
            known_stream_limit: BTreeMap::new(),
            known_max_streams: [remote.streams_bidi, remote.streams_uni],
            adv_max_data: local.max_data,
            adv_stream_limit: BTreeMap::new(),
            adv_max_streams: [local.streams_bidi, local.streams_uni],
            adv_seen: BTreeSet::new(),
            fresh_bytes_sent: 0,
            reset_extra: 0,
            conn_error: None,
        }
    }
}

impl Endpoint {
    /// Moves the `slot`-th stream handle (reader/writer) out, e.g. into a logical thread.
    pub(crate) fn take_handle(&mut self, slot: usize) -> Handle {
        self.handles.remove(slot)
    }

    pub(crate) fn streams(&self) -> &DataStreams {
        &self.streams
    }

    pub(crate) fn handle_count(&self) -> usize {
        self.handles.len()
    }

    pub(crate) fn handle_sid(&self, slot: usize) -> StreamId {
        self.handles[slot].sid
    }

    /// Debug dump of the real stream set and flow controller (pointer values masked).
    pub(crate) fn canon_dump(&self) -> String {
        strip_addresses(&format!("{:?}|{:?}", self.streams, self.flow))
    }

    /// Assembles one packet (reliable frames, then stream data) and returns its recorded frames.
    pub(crate) fn assemble_frames(&mut self, cap: usize) -> Vec<GuaranteedFrame> {
        let mut pkt = Cap::new(cap);
        let _ = self.reliable.try_load_frames_into(&mut pkt);
        let _ = self.streams.try_load_data_into(&mut pkt, &self.flow.sender, false);
        pkt.frames
    }

    /// The acknowledgement feedback of qconnection::space::AckDataSpace for one frame.
    pub(crate) fn ack_frame(&self, frame: GuaranteedFrame) {
        match frame {
            GuaranteedFrame::Stream(sf) => self.streams.on_data_acked(sf),
            GuaranteedFrame::Reliable(ReliableFrame::StreamCtl(StreamCtlFrame::ResetStream(r))) => self.streams.on_reset_acked(r),
            _ => {}
        }
    }

    /// A STREAM frame arrives from the peer (through the real FlowControlledDataStreams).
    pub(crate) fn peer_stream(&self, f: StreamFrame, data: Bytes) -> Result<(), qbase::error::Error> {
        (self.rx_data)((f, data))
    }

    /// A stream control frame arrives from the peer.
    pub(crate) fn peer_ctl(&self, f: StreamCtlFrame) -> Result<(), qbase::error::Error> {
        (self.rx_ctl)(f)
    }

    /// Polls accept_bi / accept_uni until pending; returns the stream ids offered.
    pub(crate) fn accept_all(&mut self) -> Result<(Vec<StreamId>, Vec<StreamId>), qbase::error::Error> {
        let waker = noop_waker();
        let mut cx = Context::from_waker(&waker);
        let (mut bi, mut uni) = (Vec::new(), Vec::new());
        for _ in 0..64 {
            let mut f = self.streams.accept_bi(&self.params);
            match Pin::new(&mut f).poll(&mut cx) {
                Poll::Ready(Ok((sid, (r, w)))) => {
                    bi.push(sid);
                    self.handles.push(Handle { sid, writer: Some(w), reader: Some(r) });
                }
                Poll::Ready(Err(e)) => return Err(e),
                Poll::Pending => break,
            }
        }
        for _ in 0..64 {
            let mut f = self.streams.accept_uni();
            match Pin::new(&mut f).poll(&mut cx) {
                Poll::Ready(Ok((sid, r))) => {
                    uni.push(sid);
                    self.handles.push(Handle { sid, writer: None, reader: Some(r) });
                }
                Poll::Ready(Err(e)) => return Err(e),
                Poll::Pending => break,
            }
        }
        Ok((bi, uni))
    }

    /// Opens a local stream (one poll); None if blocked.
    pub(crate) fn open(&mut self, bi: bool) -> Option<StreamId> {
        let waker = noop_waker();
        let mut cx = Context::from_waker(&waker);
        if bi {
            let mut f = self.streams.open_bi(&self.params);
            match Pin::new(&mut f).poll(&mut cx) {
                Poll::Ready(Ok(Some((sid, (r, w))))) => {
                    self.handles.push(Handle { sid, writer: Some(w), reader: Some(r) });
                    Some(sid)
                }
                _ => None,
            }
        } else {
            let mut f = self.streams.open_uni(&self.params);
            match Pin::new(&mut f).poll(&mut cx) {
                Poll::Ready(Ok(Some((sid, w)))) => {
                    self.handles.push(Handle { sid, writer: Some(w), reader: None });
                    Some(sid)
                }
                _ => None,
            }
        }
    }
}

// ------------------------------------------------------------------------------------------
// the system
// ------------------------------------------------------------------------------------------

pub struct Pipe {
    pub cfg: Cfg,
    /// application tasks: "app<side>" (the script) and "read<side>:<slot>" (one reader each)
    tasks: BTreeMap<String, Task>,
    ep: [Endpoint; 2],
    /// reference per (sending side, stream id) direction
    dirs: BTreeMap<(usize, u64), RefStream>,
    /// when set, `finish()` is running: the liveness clauses are judged afterwards
    steps: u64,
}

fn content(sender: usize, sid: u64, off: usize) -> u8 {
    ((sender as u64 * 101 + sid * 37 + off as u64 * 7 + 1) % 251) as u8
}

/// The initial per-stream limit that `sender` must respect on stream `sid`, from the
/// *receiver's* transport parameters (RFC 9000 §18.2).
fn initial_stream_limit(cfg: &Cfg, sender: usize, sid: StreamId) -> u64 {
    let recv_cfg = if sender == 0 { &cfg.server } else { &cfg.client };
    let sender_role = if sender == 0 { Role::Client } else { Role::Server };
    match (sid.dir(), sid.role() == sender_role) {
        (Dir::Uni, _) => recv_cfg.uni,
        // the sender initiated the bidi stream: for the receiver it is peer-initiated
        (Dir::Bi, true) => recv_cfg.bidi_remote,
        // the receiver initiated it: "bidi_local" from the receiver's point of view
        (Dir::Bi, false) => recv_cfg.bidi_local,
    }
}

impl Pipe {
    pub fn new(cfg: Cfg) -> Pipe {
        let ep = [Endpoint::new(Role::Client, &cfg), Endpoint::new(Role::Server, &cfg)];
        Pipe { cfg, tasks: BTreeMap::new(), ep, dirs: BTreeMap::new(), steps: 0 }
    }

    fn dir_mut(&mut self, sender: usize, sid: StreamId) -> &mut RefStream {
        self.dirs.entry((sender, u64::from(sid))).or_default()
    }

    // ---------------- application steps ----------------

    /// Runs the next script step of `side`; returns whether it completed.
    fn app_step(&mut self, side: usize) -> Result<bool, Fail> {
        self.app_step_forced(side, false)
    }

    /// `force`: poll even though the task is parked and was not woken (used only to decide, at
    /// quiescence, whether a parked task sleeps on a satisfied condition).
    fn app_step_forced(&mut self, side: usize, force: bool) -> Result<bool, Fail> {
        let Some(step) = self.cfg.scripts[side].get(self.ep[side].pc).cloned() else {
            return Ok(false);
        };
        let key = format!("app{side}");
        let task = self.tasks.entry(key.clone()).or_default();
        if !force && !task.runnable() {
            return Ok(false);
        }
        let seen = task.count();
        let waker = task.waker();
        let mut cx = Context::from_waker(&waker);
        let done = match step {
            Step::OpenBi | Step::OpenUni => {
                let bi = step == Step::OpenBi;
                let ep = &mut self.ep[side];
                let polled = if bi {
                    let mut f = ep.streams.open_bi(&ep.params);
                    match Pin::new(&mut f).poll(&mut cx) {
                        Poll::Ready(r) => Some(r.map(|o| o.map(|(sid, (r, w))| (sid, Some(r), w)))),
                        Poll::Pending => None,
                    }
                } else {
                    let mut f = ep.streams.open_uni(&ep.params);
                    match Pin::new(&mut f).poll(&mut cx) {
                        Poll::Ready(r) => Some(r.map(|o| o.map(|(sid, w)| (sid, None, w)))),
                        Poll::Pending => None,
                    }
                };
                match polled {
                    None => false,
                    Some(Err(e)) => return Err(Fail::new("c01/open-error", format!("open failed: {e}"))),
                    Some(Ok(None)) => return Err(Fail::new("c01/open-exhausted", "stream ids exhausted")),
                    Some(Ok(Some((sid, r, w)))) => {
                        // C12: never more opens than the peer allows *as far as this endpoint knows*
                        let d = if bi { 0 } else { 1 };
                        let allowed = ep.known_max_streams[d];
                        ensure!(
                            sid.id() < allowed,
                            "c12/open-beyond-limit",
                            "{:?} opened {sid:?} (index {}) while the peer's limit known to it is {allowed}",
                            ep.role,
                            sid.id()
                        );
                        ep.handles.push(Handle { sid, writer: Some(w), reader: r });
                        true
                    }
                }
            }
            Step::AcceptBi | Step::AcceptUni => {
                let bi = step == Step::AcceptBi;
                let ep = &mut self.ep[side];
                let polled = if bi {
                    let mut f = ep.streams.accept_bi(&ep.params);
                    match Pin::new(&mut f).poll(&mut cx) {
                        Poll::Ready(r) => Some(r.map(|(sid, (r, w))| (sid, r, Some(w)))),
                        Poll::Pending => None,
                    }
                } else {
                    let mut f = ep.streams.accept_uni();
                    match Pin::new(&mut f).poll(&mut cx) {
                        Poll::Ready(r) => Some(r.map(|(sid, r)| (sid, r, None))),
                        Poll::Pending => None,
                    }
                };
                match polled {
                    None => false,
                    Some(Err(e)) => return Err(Fail::new("c01/accept-error", format!("accept failed: {e}"))),
                    Some(Ok((sid, r, w))) => {
                        ensure!(
                            !ep.handles.iter().any(|h| h.sid == sid),
                            "c12/accepted-twice",
                            "stream {sid:?} was offered to the application twice"
                        );
                        ep.handles.push(Handle { sid, writer: w, reader: Some(r) });
                        true
                    }
                }
            }
            Step::Write { slot, n } => {
                let Some(h) = self.ep[side].handles.get_mut(slot) else { return Ok(false) };
                let sid = h.sid;
                let Some(w) = h.writer.as_mut() else { return Ok(false) };
                let start = self.dirs.get(&(side, u64::from(sid))).map(|d| d.written.len()).unwrap_or(0);
                let data: Vec<u8> = (start..start + n).map(|o| content(side, u64::from(sid), o)).collect();
                match w.poll_write(&mut cx, Bytes::from(data.clone())) {
                    Poll::Pending => false,
                    Poll::Ready(Ok(())) => {
                        self.dir_mut(side, sid).written.extend(data);
                        true
                    }
                    Poll::Ready(Err(e)) => {
                        let d = self.dir_mut(side, sid);
                        ensure!(
                            d.reset.is_some() || d.stopped.is_some(),
                            "c01/write-error",
                            "write on {sid:?} failed without reset/stop: {e}"
                        );
                        true
                    }
                }
            }
            Step::Flush { slot } => {
                let Some(h) = self.ep[side].handles.get_mut(slot) else { return Ok(false) };
                let sid = h.sid;
                let Some(w) = h.writer.as_mut() else { return Ok(false) };
                match w.poll_flush(&mut cx) {
                    Poll::Pending => false,
                    Poll::Ready(r) => {
                        let d = self.dir_mut(side, sid);
                        if r.is_ok() {
                            d.flush_done_at = Some(d.written.len());
                        } else {
                            ensure!(
                                d.reset.is_some() || d.stopped.is_some(),
                                "c01/flush-error",
                                "flush on {sid:?} failed without reset/stop: {r:?}"
                            );
                        }
                        true
                    }
                }
            }
            Step::Shutdown { slot } => {
                let Some(h) = self.ep[side].handles.get_mut(slot) else { return Ok(false) };
                let sid = h.sid;
                let Some(w) = h.writer.as_mut() else { return Ok(false) };
                let r = w.poll_shutdown(&mut cx);
                let d = self.dir_mut(side, sid);
                d.fin = true;
                match r {
                    Poll::Pending => false,
                    Poll::Ready(r) => {
                        if r.is_ok() {
                            d.shutdown_done = true;
                        } else {
                            ensure!(
                                d.reset.is_some() || d.stopped.is_some(),
                                "c01/shutdown-error",
                                "shutdown on {sid:?} failed without reset/stop: {r:?}"
                            );
                        }
                        true
                    }
                }
            }
            Step::Cancel { slot, code } => {
                let Some(h) = self.ep[side].handles.get_mut(slot) else { return Ok(false) };
                let sid = h.sid;
                if let Some(w) = h.writer.as_mut() {
                    w.cancel(code);
                }
                self.dir_mut(side, sid).reset = Some(code);
                true
            }
            Step::Stop { slot, code } => {
                let Some(h) = self.ep[side].handles.get_mut(slot) else { return Ok(false) };
                let sid = h.sid;
                if let Some(r) = h.reader.as_mut() {
                    r.stop(code);
                }
                // the *other* side's direction is the one being stopped
                self.dir_mut(1 - side, sid).stopped = Some(code);
                true
            }
        };
        if done {
            self.ep[side].pc += 1;
        }
        // a step that could not complete parks the script until its waker fires
        let pending_poll = !done && matches!(step2kind(&self.cfg.scripts[side], self.ep[side].pc), StepKind::Polls);
        self.tasks.get_mut(&key).unwrap().parked = if pending_poll { Some(seen) } else { None };
        Ok(done)
    }

    /// One read; returns the number of bytes read, or None for Pending.
    fn read(&mut self, side: usize, slot: usize, cap: usize) -> Result<Option<usize>, Fail> {
        self.read_forced(side, slot, cap, false)
    }

    fn read_forced(&mut self, side: usize, slot: usize, cap: usize, force: bool) -> Result<Option<usize>, Fail> {
        let key = format!("read{side}:{slot}");
        let task = self.tasks.entry(key.clone()).or_default();
        if !force && !task.runnable() {
            return Ok(None);
        }
        let seen = task.count();
        let waker = task.waker();
        let mut cx = Context::from_waker(&waker);
        let Some(h) = self.ep[side].handles.get_mut(slot) else { return Ok(None) };
        let sid = h.sid;
        let Some(r) = h.reader.as_mut() else { return Ok(None) };
        let mut buf = Cap::new(cap);
        let res = r.poll_read(&mut cx, &mut buf);
        let sender = 1 - side;
        let d = self.dirs.entry((sender, u64::from(sid))).or_default();
        self.tasks.get_mut(&key).unwrap().parked = if res.is_pending() { Some(seen) } else { None };
        match res {
            Poll::Pending => {
                ensure!(buf.buf.is_empty(), "c01/pending-with-data", "poll_read returned Pending but wrote {} bytes", buf.buf.len());
                Ok(None)
            }
            Poll::Ready(Ok(())) => {
                let got = buf.buf;
                ensure!(!d.reset_seen, "c01/data-after-reset-read", "read succeeded on {sid:?} after a reset was reported");
                let off = d.read.len();
                ensure!(
                    off + got.len() <= d.written.len(),
                    "c01/read-unwritten",
                    "stream {sid:?}: read {} bytes at offset {off} but only {} were ever written",
                    got.len(),
                    d.written.len()
                );
                ensure!(
                    got[..] == d.written[off..off + got.len()],
                    "c01/wrong-bytes",
                    "stream {sid:?} offset {off}: read {:?}, written {:?}",
                    got,
                    &d.written[off..off + got.len()]
                );
                d.read.extend_from_slice(&got);
                if got.is_empty() && cap > 0 {
                    // end of stream
                    ensure!(
                        d.fin,
                        "c01/eof-without-fin",
                        "stream {sid:?}: end-of-stream reported although the writer never finished the stream"
                    );
                    ensure!(
                        d.read.len() == d.written.len(),
                        "c01/eof-before-last-byte",
                        "stream {sid:?}: end-of-stream after {} of {} bytes",
                        d.read.len(),
                        d.written.len()
                    );
                    d.eof_seen = true;
                } else {
                    ensure!(!d.eof_seen, "c01/data-after-eof", "stream {sid:?}: data after end-of-stream");
                }
                Ok(Some(got.len()))
            }
            Poll::Ready(Err(e)) => {
                ensure!(
                    d.reset.is_some() || d.stopped.is_some(),
                    "c01/read-error",
                    "read on {sid:?} failed although the stream was neither reset nor stopped: {e}"
                );
                d.reset_seen = true;
                Ok(Some(0))
            }
        }
    }

    // ---------------- transport ----------------

    fn assemble(&mut self, side: usize) -> Result<bool, Fail> {
        let cap = self.cfg.cap;
        let mut pkt = Cap::new(cap);
        {
            let ep = &self.ep[side];
            // order of qconnection::path::burst: reliable frames, then stream data
            let _ = ep.reliable.try_load_frames_into(&mut pkt);
            let _ = ep.streams.try_load_data_into(&mut pkt, &ep.flow.sender, false);
        }
        if pkt.buf.is_empty() {
            return Ok(false);
        }
        ensure!(pkt.buf.len() <= cap, "c01/packet-overflow", "packet of {} bytes for a capacity of {cap}", pkt.buf.len());
        let bytes = Bytes::from(pkt.buf);
        // what really is on the wire decides the flow-control oracle
        let parsed = self.parse(&bytes)?;
        let cfg = self.cfg.clone();
        for f in &parsed {
            match f {
                Frame::Stream(sf, data) => {
                    let sid = sf.stream_id();
                    let end = sf.offset() + data.len() as u64;
                    let ep = &self.ep[side];
                    let limit = ep
                        .known_stream_limit
                        .get(&u64::from(sid))
                        .copied()
                        .unwrap_or(0)
                        .max(initial_stream_limit(&cfg, side, sid));
                    ensure!(
                        end <= limit,
                        "c11/stream-limit-exceeded",
                        "{:?} sent {sid:?} bytes up to {end} but the peer's limit for that stream known to it is {limit}",
                        ep.role
                    );
                    let d = self.dir_mut(side, sid);
                    let mut fresh = 0u64;
                    for o in sf.offset()..end {
                        if d.sent.insert(o) {
                            fresh += 1;
                        }
                    }
                    // the bytes on the wire are the bytes written
                    let w = &d.written;
                    ensure!(
                        (end as usize) <= w.len() && data[..] == w[sf.offset() as usize..end as usize],
                        "c01/frame-wrong-bytes",
                        "STREAM frame {sid:?} [{}, {end}) carries {:?}, written {:?}",
                        sf.offset(),
                        &data[..],
                        w.get(sf.offset() as usize..(end as usize).min(w.len()))
                    );
                    let ep = &mut self.ep[side];
                    ep.fresh_bytes_sent += fresh;
                    ensure!(
                        ep.fresh_bytes_sent + ep.reset_extra <= ep.known_max_data,
                        "c11/connection-limit-exceeded",
                        "{:?} has sent {} distinct stream bytes but the peer's connection limit known to it is {}",
                        ep.role,
                        ep.fresh_bytes_sent,
                        ep.known_max_data
                    );
                }
                Frame::StreamCtl(StreamCtlFrame::ResetStream(r)) => {
                    // RFC 9000 §4.5: the final size is the flow-control credit the stream
                    // consumes, at both levels; it may not exceed what the peer has granted
                    let sid = r.stream_id();
                    let fin = r.final_size();
                    let ep = &self.ep[side];
                    let limit = ep
                        .known_stream_limit
                        .get(&u64::from(sid))
                        .copied()
                        .unwrap_or(0)
                        .max(initial_stream_limit(&cfg, side, sid));
                    ensure!(
                        fin <= limit,
                        "c11/reset-final-size-exceeds-stream-limit",
                        "{:?} sent RESET_STREAM for {sid:?} with final size {fin} but the peer's limit for that stream known to it is {limit}",
                        ep.role
                    );
                    let d = self.dir_mut(side, sid);
                    let largest = d.sent.iter().next_back().map_or(0, |o| o + 1);
                    ensure!(
                        fin >= largest,
                        "c12/reset-final-size-below-sent",
                        "RESET_STREAM for {sid:?} has final size {fin} after bytes up to {largest} were sent"
                    );
                    match d.reset_final {
                        Some(prev) => ensure!(
                            prev == fin,
                            "c12/reset-final-size-changed",
                            "RESET_STREAM for {sid:?} has final size {fin}, an earlier one had {prev}"
                        ),
                        None => {
                            d.reset_final = Some(fin);
                            let ep = &mut self.ep[side];
                            ep.reset_extra += fin - largest;
                            ensure!(
                                ep.fresh_bytes_sent + ep.reset_extra <= ep.known_max_data,
                                "c11/reset-final-size-exceeds-connection-limit",
                                "{:?} has sent {} distinct stream bytes and claims {} more through RESET_STREAM final sizes, the peer's connection limit known to it is {}",
                                ep.role,
                                ep.fresh_bytes_sent,
                                ep.reset_extra,
                                ep.known_max_data
                            );
                        }
                    }
                }
                Frame::MaxData(f) => {
                    let ep = &mut self.ep[side];
                    let retransmission = !ep.adv_seen.insert((0, 0, f.max_data()));
                    ensure!(
                        retransmission || f.max_data() >= ep.adv_max_data,
                        "c11/max-data-decreased",
                        "{:?} advertised MAX_DATA {} after {}",
                        ep.role,
                        f.max_data(),
                        ep.adv_max_data
                    );
                    ep.adv_max_data = ep.adv_max_data.max(f.max_data());
                }
                Frame::StreamCtl(StreamCtlFrame::MaxStreamData(f)) => {
                    let ep = &mut self.ep[side];
                    let prev = ep.adv_stream_limit.get(&u64::from(f.stream_id())).copied().unwrap_or(0);
                    let retransmission = !ep.adv_seen.insert((1, u64::from(f.stream_id()), f.max_stream_data()));
                    ensure!(
                        retransmission || f.max_stream_data() >= prev,
                        "c11/max-stream-data-decreased",
                        "{:?} advertised MAX_STREAM_DATA {} for {:?} after {prev}",
                        ep.role,
                        f.max_stream_data(),
                        f.stream_id()
                    );
                    ep.adv_stream_limit.insert(u64::from(f.stream_id()), prev.max(f.max_stream_data()));
                }
                Frame::StreamCtl(StreamCtlFrame::MaxStreams(f)) => {
                    let (d, v) = match f {
                        qbase::frame::MaxStreamsFrame::Bi(v) => (0, v.into_u64()),
                        qbase::frame::MaxStreamsFrame::Uni(v) => (1, v.into_u64()),
                    };
                    let ep = &mut self.ep[side];
                    let retransmission = !ep.adv_seen.insert((2 + d as u8, 0, v));
                    ensure!(
                        retransmission || v >= ep.adv_max_streams[d],
                        "c12/max-streams-decreased",
                        "{:?} advertised MAX_STREAMS {v} after {}",
                        ep.role,
                        ep.adv_max_streams[d]
                    );
                    ep.adv_max_streams[d] = ep.adv_max_streams[d].max(v);
                }
                _ => {}
            }
        }
        self.ep[side].pkts.push(Pkt { bytes, frames: pkt.frames, state: PktState::Flying, delivered_times: 0 });
        Ok(true)
    }

    fn parse(&self, bytes: &Bytes) -> Result<Vec<Frame>, Fail> {
        let ty = Type::Short(qbase::packet::r#type::short::OneRtt(qbase::packet::signal::SpinBit::Zero));
        let mut out = Vec::new();
        for item in FrameReader::new(bytes.clone(), ty) {
            match item {
                Ok((f, _)) => out.push(f),
                Err(e) => return Err(Fail::new("c01/unparsable-packet", format!("own packet does not parse: {e} ({bytes:?})"))),
            }
        }
        Ok(out)
    }

    fn deliver(&mut self, from: usize, k: usize) -> Result<(), Fail> {
        let bytes = self.ep[from].pkts[k].bytes.clone();
        let to = 1 - from;
        for f in self.parse(&bytes)? {
            let ep = &mut self.ep[to];
            let r = match f {
                Frame::Stream(sf, data) => (ep.rx_data)((sf, data)),
                Frame::StreamCtl(c) => {
                    match &c {
                        StreamCtlFrame::MaxStreamData(m) => {
                            let e = ep.known_stream_limit.entry(u64::from(m.stream_id())).or_insert(0);
                            *e = (*e).max(m.max_stream_data());
                        }
                        StreamCtlFrame::MaxStreams(m) => {
                            let (d, v) = match m {
                                qbase::frame::MaxStreamsFrame::Bi(v) => (0, v.into_u64()),
                                qbase::frame::MaxStreamsFrame::Uni(v) => (1, v.into_u64()),
                            };
                            ep.known_max_streams[d] = ep.known_max_streams[d].max(v);
                        }
                        _ => {}
                    }
                    (ep.rx_ctl)(c)
                }
                Frame::MaxData(m) => {
                    ep.known_max_data = ep.known_max_data.max(m.max_data());
                    ep.flow.sender.recv_frame(m)
                }
                Frame::DataBlocked(b) => ep.flow.recver.recv_frame(b),
                Frame::Padding(_) | Frame::Ping(_) => Ok(()),
                other => return Err(Fail::new("c01/unexpected-frame", format!("unexpected frame on the pipe: {other:?}"))),
            };
            if let Err(e) = r {
                // two correct endpoints never produce a connection error
                let kind = match &e {
                    qbase::error::Error::Quic(q) => format!("{:?}", q.kind()),
                    other => format!("{other:?}"),
                };
                ep.conn_error = Some(kind.clone());
                return Err(Fail::new(
                    format!("pipe/connection-error/{kind}"),
                    format!("{:?} rejected a frame its (unmodified) peer sent: {e}", ep.role),
                ));
            }
        }
        let p = &mut self.ep[from].pkts[k];
        p.delivered_times += 1;
        if p.state == PktState::Flying || p.state == PktState::Held || p.state == PktState::Lost {
            p.state = PktState::Delivered;
        }
        Ok(())
    }

    /// qconnection::space::AckDataSpace::recv_frame for one packet
    fn ack(&mut self, from: usize, k: usize) {
        let frames = self.ep[from].pkts[k].frames.clone();
        let ep = &self.ep[from];
        for frame in frames {
            match frame {
                GuaranteedFrame::Stream(sf) => ep.streams.on_data_acked(sf),
                GuaranteedFrame::Reliable(ReliableFrame::StreamCtl(StreamCtlFrame::ResetStream(r))) => ep.streams.on_reset_acked(r),
                _ => {}
            }
        }
        self.ep[from].pkts[k].state = PktState::Acked;
    }

    /// qconnection::space::data::DataTracker::may_loss for one packet
    fn lose(&mut self, from: usize, k: usize) {
        let frames = self.ep[from].pkts[k].frames.clone();
        let ep = &self.ep[from];
        for frame in frames {
            match frame {
                GuaranteedFrame::Stream(sf) => ep.streams.may_loss_data(&sf),
                GuaranteedFrame::Reliable(f) => ep.reliable.send_frame([f]),
                GuaranteedFrame::Crypto(_) => {}
            }
        }
        if matches!(self.ep[from].pkts[k].state, PktState::Flying | PktState::Held) {
            self.ep[from].pkts[k].state = PktState::Lost;
        }
    }

    pub fn packet_count(&self) -> usize {
        self.ep[0].pkts.len() + self.ep[1].pkts.len()
    }

    fn oldest_flying(&self, from: usize) -> Option<usize> {
        self.ep[from].pkts.iter().position(|p| p.state == PktState::Flying)
    }
}

enum StepKind {
    /// the step is a poll that may return Pending (and then waits for its waker)
    Polls,
    /// the step cannot be taken yet for a harness reason (e.g. the handle does not exist yet)
    Other,
}

fn step2kind(script: &[Step], pc: usize) -> StepKind {
    match script.get(pc) {
        Some(Step::Cancel { .. }) | Some(Step::Stop { .. }) | None => StepKind::Other,
        Some(_) => StepKind::Polls,
    }
}

pub(crate) fn strip_addresses(s: &str) -> String {
    // `Waker { data: 0x…, vtable: 0x… }` and similar pointers differ between replays
    let mut out = String::with_capacity(s.len());
    let b = s.as_bytes();
    let mut i = 0;
    while i < b.len() {
        if b[i] == b'0' && i + 1 < b.len() && b[i + 1] == b'x' {
            out.push_str("0x");
            i += 2;
            while i < b.len() && b[i].is_ascii_hexdigit() {
                i += 1;
            }
        } else {
            out.push(b[i] as char);
            i += 1;
        }
    }
    out
}

impl System for Pipe {
    type Op = Op;

    fn ops(&self) -> Vec<Op> {
        let mut v = Vec::new();
        // The default network answers at once: while a freshly assembled packet is flying, the
        // only choices are its fate — deliver+ack (default), or a deviation.
        let mut flying = false;
        for from in 0..2 {
            if let Some(k) = self.oldest_flying(from) {
                flying = true;
                v.push(Op::Deliver { from, k, ack: true });
            }
        }
        if flying {
            for from in 0..2 {
                if let Some(k) = self.oldest_flying(from) {
                    v.push(Op::Deliver { from, k, ack: false });
                    v.push(Op::Lose { from, k });
                    v.push(Op::Hold { from, k });
                }
            }
            return v;
        }
        for side in 0..2 {
            if self.ep[side].pkts.len() < self.cfg.max_packets {
                v.push(Op::Assemble { side });
            }
        }
        for side in 0..2 {
            // an executor polls a task only when it is new or its waker has fired
            let runnable = |key: String| self.tasks.get(&key).is_none_or(|t| t.runnable());
            if self.ep[side].pc < self.cfg.scripts[side].len() && runnable(format!("app{side}")) {
                v.push(Op::App { side });
            }
            for (slot, h) in self.ep[side].handles.iter().enumerate() {
                if h.reader.is_some() {
                    let d = self.dirs.get(&(1 - side, u64::from(h.sid)));
                    if d.is_some_and(|d| d.eof_seen || d.reset_seen) {
                        continue;
                    }
                    if !runnable(format!("read{side}:{slot}")) {
                        continue;
                    }
                    for &cap in &self.cfg.read_caps {
                        v.push(Op::Read { side, slot, cap });
                    }
                }
            }
        }
        // consequences of earlier deviations, and further deviations
        for from in 0..2 {
            for (k, p) in self.ep[from].pkts.iter().enumerate() {
                match p.state {
                    PktState::Flying => {}
                    PktState::Held => {
                        v.push(Op::Deliver { from, k, ack: true });
                        v.push(Op::Lose { from, k });
                    }
                    PktState::Delivered => {
                        v.push(Op::Ack { from, k });
                        v.push(Op::Lose { from, k });
                        if p.delivered_times < 2 {
                            v.push(Op::Dup { from, k });
                        }
                    }
                    PktState::Lost => {
                        // a packet declared lost may still arrive late
                        if p.delivered_times == 0 {
                            v.push(Op::Deliver { from, k, ack: true });
                        }
                    }
                    PktState::Acked => {
                        if p.delivered_times < 2 {
                            v.push(Op::Dup { from, k });
                        }
                    }
                }
            }
        }
        v
    }

    fn cost(&self, op: &Op) -> u32 {
        match *op {
            Op::App { .. } | Op::Read { .. } | Op::Assemble { .. } => 0,
            // delivering a held / lost-late packet is free: the deviation was paid when it was
            // held / declared lost
            Op::Deliver { ack, .. } => (!ack) as u32,
            Op::Ack { .. } => 0,
            Op::Lose { from, k } => (self.ep[from].pkts[k].state != PktState::Held) as u32,
            Op::Dup { .. } | Op::Hold { .. } => 1,
        }
    }

    fn step(&mut self, op: &Op) -> Result<(), Fail> {
        self.steps += 1;
        match *op {
            Op::App { side } => {
                self.app_step(side)?;
            }
            Op::Read { side, slot, cap } => {
                self.read(side, slot, cap)?;
            }
            Op::Assemble { side } => {
                self.assemble(side)?;
            }
            Op::Deliver { from, k, ack } => {
                self.deliver(from, k)?;
                if ack {
                    self.ack(from, k);
                }
            }
            Op::Ack { from, k } => self.ack(from, k),
            Op::Lose { from, k } => self.lose(from, k),
            Op::Dup { from, k } => self.deliver(from, k)?,
            Op::Hold { from, k } => self.ep[from].pkts[k].state = PktState::Held,
        }
        Ok(())
    }

    fn canon(&self) -> String {
        let mut s = String::new();
        for ep in &self.ep {
            s.push_str(&strip_addresses(&format!(
                "{:?}|{:?}|{:?}|pc{}|h{}|",
                ep.streams,
                ep.flow,
                ep.reliable,
                ep.pc,
                ep.handles.len()
            )));
            for p in &ep.pkts {
                s.push_str(&format!("{:?}{}{:?};", p.state, p.delivered_times, p.bytes));
            }
            s.push_str(&format!(
                "|{}|{:?}|{:?}|{}|{:?}|{:?}|{:?}|{}",
                ep.known_max_data,
                ep.known_stream_limit,
                ep.known_max_streams,
                ep.adv_max_data,
                ep.adv_stream_limit,
                ep.adv_max_streams,
                ep.adv_seen,
                ep.fresh_bytes_sent
            ));
        }
        s.push_str(&format!("{:?}", self.dirs));
        for (k, t) in &self.tasks {
            s.push_str(&format!("|{k}:{}{}", t.parked.is_some() as u8, t.runnable() as u8));
        }
        s
    }

    /// "If the network eventually delivers what is retransmitted": from this state on the
    /// network is perfect; run everything to quiescence and judge the liveness clauses.
    fn finish(&mut self) -> Result<(), Fail> {
        // what is still flying arrives, what was delivered is acknowledged
        for from in 0..2 {
            for k in 0..self.ep[from].pkts.len() {
                match self.ep[from].pkts[k].state {
                    PktState::Flying | PktState::Held => {
                        self.deliver(from, k)?;
                        self.ack(from, k);
                    }
                    PktState::Delivered => self.ack(from, k),
                    _ => {}
                }
            }
        }
        let max_rounds = 400;
        for round in 0..max_rounds {
            let mut progress = false;
            for side in 0..2 {
                while self.app_step(side)? {
                    progress = true;
                }
                for slot in 0..self.ep[side].handles.len() {
                    loop {
                        let sid = self.ep[side].handles[slot].sid;
                        if self.ep[side].handles[slot].reader.is_none() {
                            break;
                        }
                        let d = self.dirs.get(&(1 - side, u64::from(sid)));
                        if d.is_some_and(|d| d.eof_seen || d.reset_seen) {
                            break;
                        }
                        match self.read(side, slot, 64)? {
                            Some(_) => progress = true,
                            None => break,
                        }
                    }
                }
            }
            for side in 0..2 {
                // no packet budget in the completion run
                while self.assemble(side)? {
                    progress = true;
                    let k = self.ep[side].pkts.len() - 1;
                    self.deliver(side, k)?;
                    self.ack(side, k);
                }
            }
            if !progress {
                // Quiescent. Every parked task must really be waiting for something: poll the
                // parked ones once without a wake-up — if such a poll completes, the task was
                // sleeping on a satisfied condition (a lost wake-up).
                let mut woke_late = false;
                for side in 0..2 {
                    let parked = self.tasks.get(&format!("app{side}")).is_some_and(|t| !t.runnable());
                    if parked {
                        let pc = self.ep[side].pc;
                        if self.app_step_forced(side, true)? {
                            return Err(Fail::new(
                                "c01/lost-wakeup/application-operation",
                                format!(
                                    "{:?}: script step {pc} ({:?}) returned Pending, its waker was never fired, yet polling it again completes: the task would sleep for ever",
                                    self.ep[side].role,
                                    self.cfg.scripts[side].get(pc)
                                ),
                            ));
                        }
                    }
                    for slot in 0..self.ep[side].handles.len() {
                        let parked = self.tasks.get(&format!("read{side}:{slot}")).is_some_and(|t| !t.runnable());
                        if parked {
                            if let Some(n) = self.read_forced(side, slot, 64, true)? {
                                let sid = self.ep[side].handles[slot].sid;
                                return Err(Fail::new(
                                    "c01/lost-wakeup/reader",
                                    format!(
                                        "{:?}: a read on {sid:?} returned Pending, its waker was never fired, yet polling again yields {n} byte(s) / end-of-stream: the reading task would sleep for ever",
                                        self.ep[side].role
                                    ),
                                ));
                            }
                        }
                    }
                }
                let _ = &mut woke_late;
                break;
            }
            ensure!(round + 1 < max_rounds, "c01/livelock", "the completion run did not quiesce in {max_rounds} rounds");
        }
        // liveness verdicts
        for side in 0..2 {
            let pc = self.ep[side].pc;
            let len = self.cfg.scripts[side].len();
            ensure!(
                pc == len,
                "c01/liveness/app-step-stuck",
                "over a perfect network {:?} is stuck at script step {pc}: {:?}",
                self.ep[side].role,
                self.cfg.scripts[side].get(pc)
            );
        }
        for ((sender, sid), d) in &self.dirs {
            if d.reset.is_some() || d.stopped.is_some() {
                continue;
            }
            // is there a reader for it at all?
            let recv_side = 1 - *sender;
            let has_reader = self.ep[recv_side].handles.iter().any(|h| u64::from(h.sid) == *sid && h.reader.is_some());
            if !has_reader {
                continue;
            }
            ensure!(
                d.read.len() == d.written.len(),
                "c01/liveness/bytes-not-delivered",
                "stream {sid}: {} of {} written bytes became readable over a perfect network",
                d.read.len(),
                d.written.len()
            );
            if d.fin {
                ensure!(d.eof_seen, "c01/liveness/eof-not-delivered", "stream {sid}: end-of-stream never became readable");
                ensure!(d.shutdown_done, "c01/liveness/shutdown-not-completed", "stream {sid}: shutdown never completed");
            }
        }
        // C11: unused credit is returned, every byte charged once
        for ep in &self.ep {
            let dump = format!("{:?}", ep.flow.sender);
            if let Some(i) = dump.find("sent_data: ") {
                let rest = &dump[i + 11..];
                let n: String = rest.chars().take_while(|c| c.is_ascii_digit()).collect();
                if let Ok(sent) = n.parse::<u64>() {
                    ensure!(
                        sent == ep.fresh_bytes_sent + ep.reset_extra,
                        "c11/connection-credit-accounting",
                        "{:?} charged {sent} bytes to the connection window after sending {} distinct stream bytes and claiming {} more through RESET_STREAM final sizes",
                        ep.role,
                        ep.fresh_bytes_sent,
                        ep.reset_extra
                    );
                }
            }
        }
        Ok(())
    }

    fn outcome(&self) -> Option<String> {
        let read: usize = self.dirs.values().map(|d| d.read.len()).sum();
        let written: usize = self.dirs.values().map(|d| d.written.len()).sum();
        let eof = self.dirs.values().filter(|d| d.eof_seen).count();
        Some(format!("w{written}r{read}e{eof}"))
    }
}
