//! C19 part (a) — datagrams are carried whole, within the peer's size limit, or not at all.
//!
//! Component level, on the real `qdatagram::{DatagramFlow, DatagramWriter, DatagramReader}`,
//! a real `qbase::packet::PacketWriter` (transparent keys) as the packet target and the real
//! `qbase::frame::FrameReader` to read the produced bytes back.
//!
//! * `accept`   (E0): `DatagramWriter::send_bytes` / `send` for every size 0..=max+2 and every
//!   peer `max_datagram_frame_size` in {0,1,2,3,64,65,1200,65535}. RFC 9221 §3: the
//!   parameter bounds the *whole frame* (type, length field, payload). A datagram "cannot fit"
//!   iff even the length-less frame (1 + len) exceeds it. An accepted datagram is then pushed
//!   through the assembler (ample room and exact room), read back, and handed to a receiving
//!   `DatagramFlow` whose local maximum is the same value: the frame on the wire must not
//!   exceed the peer's maximum and the peer's reader must return the payload.
//! * `assemble` (E0): `DatagramFlow::try_load_data_into` called until it refuses, for every
//!   remaining-space value 0..=Σlen+3k+12 and every queue of 1–3 datagrams with sizes from
//!   {0,1,5,62,63,64,100}; leftovers are fetched by a second packet with ample room.
//! * `recv`     (E0): `DatagramFlow::recv_frame` for local maximum in {0,64,1200}, every
//!   payload size 0..=max+3 in both encodings; FIFO sequences; reader wake-up; everything
//!   fails with the connection error after `on_conn_error`.
//! * `history`  (E1 closure): send / load(room) / connection error in any order, queue ≤ 3.
use std::{
    collections::{BTreeMap, BTreeSet},
    future::Future,
    net::SocketAddr,
    pin::Pin,
    sync::{
        Arc,
        atomic::{AtomicUsize, Ordering},
    },
    task::{Context, Poll, Wake, Waker},
    time::Duration,
};

use bytes::{BufMut, Bytes};
use mc_core::{Args, ExploreCfg, Fail, Report, System, explore, panics::catch, report::Coverage};
use qbase::{
    cid::ConnectionId,
    error::{Error as QuicErr, ErrorKind, QuicError},
    frame::{DatagramFrame, EncodeSize, Frame, FrameReader, FrameType, GetFrameType, io::ReceiveFrame},
    net::{
        addr::EndpointAddr,
        route::Pathway,
        tx::{ArcSendWaker, ArcSendWakers, Signals},
    },
    packet::{
        KeyPhaseBit, OneRttHeader, PacketNumber, PacketWriter, SpinBit,
        keys::DirectionalKeys,
        r#type::{Type, short::OneRtt},
    },
};
use qdatagram::{DatagramFlow, DatagramReader};
use serde::{Deserialize, Serialize};
use serde_json::{Map, Value, json};

const PEER_MAXES: [u64; 8] = [0, 1, 2, 3, 64, 65, 1200, 65535];
const LOCAL_MAXES: [u64; 3] = [0, 64, 1200];
const SIZES: [usize; 7] = [0, 1, 5, 62, 63, 64, 100];

// ---------------------------------------------------------------------------------------
// helpers
// ---------------------------------------------------------------------------------------

/// Position- and seed-identifying bytes (no zero byte, so trailing padding shows).
fn pattern(len: usize, seed: u8) -> Bytes {
    Bytes::from(
        (0..len)
            .map(|i| (i as u8).wrapping_mul(31).wrapping_add(seed) | 0x80)
            .collect::<Vec<u8>>(),
    )
}

/// `pattern(len, 0x11)` as an O(1) slice of one shared buffer (the accept sweep goes to 64 KiB).
fn accept_pattern(len: usize) -> Bytes {
    static BIG: std::sync::OnceLock<Bytes> = std::sync::OnceLock::new();
    BIG.get_or_init(|| pattern(65535 + 8, 0x11)).slice(..len)
}

fn hex(b: &[u8]) -> String {
    let mut s = String::new();
    for x in b.iter().take(24) {
        s.push_str(&format!("{x:02x}"));
    }
    if b.len() > 24 {
        s.push_str(&format!("…({} bytes)", b.len()));
    }
    s
}

/// Encoded size of a QUIC varint holding `n`.
fn vl(n: usize) -> usize {
    if n < 64 {
        1
    } else if n < 16384 {
        2
    } else if n < (1 << 30) {
        4
    } else {
        8
    }
}

fn put_varint(out: &mut Vec<u8>, n: usize) {
    match vl(n) {
        1 => out.push(n as u8),
        2 => out.extend_from_slice(&(0x4000u16 | n as u16).to_be_bytes()),
        4 => out.extend_from_slice(&(0x8000_0000u32 | n as u32).to_be_bytes()),
        _ => out.extend_from_slice(&(0xc000_0000_0000_0000u64 | n as u64).to_be_bytes()),
    }
}

struct NoKeys;

impl rustls::quic::PacketKey for NoKeys {
    fn decrypt_in_place<'a>(
        &self,
        _pn: u64,
        _header: &[u8],
        payload: &'a mut [u8],
    ) -> Result<&'a [u8], rustls::Error> {
        let n = payload.len() - self.tag_len();
        Ok(&payload[..n])
    }
    fn encrypt_in_place(
        &self,
        _pn: u64,
        _header: &[u8],
        _payload: &mut [u8],
    ) -> Result<rustls::quic::Tag, rustls::Error> {
        Ok(rustls::quic::Tag::from(&[0xA5u8; 16][..]))
    }
    fn confidentiality_limit(&self) -> u64 {
        u64::MAX
    }
    fn integrity_limit(&self) -> u64 {
        u64::MAX
    }
    fn tag_len(&self) -> usize {
        16
    }
}

impl rustls::quic::HeaderProtectionKey for NoKeys {
    fn decrypt_in_place(&self, _s: &[u8], _f: &mut u8, _pn: &mut [u8]) -> Result<(), rustls::Error> {
        Ok(())
    }
    fn encrypt_in_place(&self, _s: &[u8], _f: &mut u8, _pn: &mut [u8]) -> Result<(), rustls::Error> {
        Ok(())
    }
    fn sample_len(&self) -> usize {
        16
    }
}

fn one_rtt() -> Type {
    Type::Short(OneRtt(SpinBit::Zero))
}

/// Runs `f` on a real 1-RTT `PacketWriter` whose `remaining_mut()` is exactly `room`; returns
/// `f`'s result and the payload bytes written behind the packet number.
fn with_writer<R>(room: usize, f: impl FnOnce(&mut PacketWriter<'_>) -> R) -> Result<(R, Vec<u8>), String> {
    let prefix = 1 + 4;
    let mut buf = vec![0u8; prefix + room + 16];
    let hdr = OneRttHeader::new(SpinBit::Zero, ConnectionId::from_slice(&[]));
    let keys = DirectionalKeys { header: Arc::new(NoKeys), packet: Arc::new(NoKeys) };
    let mut w = PacketWriter::new_short(&hdr, &mut buf, (0, PacketNumber::U32(0)), keys, KeyPhaseBit::Zero)
        .map_err(|s| format!("harness: PacketWriter refused a {}-byte buffer: {s:?}", prefix + room + 16))?;
    if w.remaining_mut() != room {
        return Err(format!("harness: PacketWriter room is {} instead of {room}", w.remaining_mut()));
    }
    let r = f(&mut w);
    let used = room - w.remaining_mut();
    drop(w);
    Ok((r, buf[prefix..prefix + used].to_vec()))
}

/// What the assembler did with one packet.
#[derive(Debug, Clone)]
struct Loaded {
    /// number of `Ok(())` returns
    oks: usize,
    /// the refusal that ended the loop (bits), `None` if the call budget ran out
    refused: Option<u16>,
    written: Vec<u8>,
}

/// Calls `try_load_data_into` on one packet with `room` bytes until it refuses.
fn load_packet(flow: &DatagramFlow, room: usize, budget: usize) -> Result<Loaded, String> {
    let ((oks, refused), written) = with_writer(room, |w| {
        let mut oks = 0;
        let mut refused = None;
        for _ in 0..budget {
            match flow.try_load_data_into(w) {
                Ok(()) => oks += 1,
                Err(s) => {
                    refused = Some(s.bits());
                    break;
                }
            }
        }
        (oks, refused)
    })?;
    Ok(Loaded { oks, refused, written })
}

#[derive(Debug, Clone, PartialEq)]
enum Item {
    Pad,
    Dgram { with_len: bool, payload: Bytes, wire: usize, frame: DatagramFrame },
}

fn parse(payload: &[u8]) -> Result<Vec<Item>, String> {
    let mut out = Vec::new();
    let mut reader = FrameReader::new(Bytes::copy_from_slice(payload), one_rtt());
    let mut steps = 0usize;
    loop {
        steps += 1;
        if steps > payload.len() + 2 {
            return Err("FrameReader does not terminate".into());
        }
        match reader.next() {
            None => break,
            Some(Err(e)) => return Err(format!("{e}")),
            Some(Ok((Frame::Padding(_), _))) => out.push(Item::Pad),
            Some(Ok((Frame::Datagram(f, d), _))) => out.push(Item::Dgram {
                with_len: f.encode_len(),
                wire: f.encoding_size() + d.len(),
                payload: d,
                frame: f,
            }),
            Some(Ok((other, _))) => return Err(format!("foreign frame {:?}", other.frame_type())),
        }
    }
    Ok(out)
}

/// Judges one packet against the queue it was loaded from. `already` = payloads emitted by
/// earlier packets. Returns the number of datagrams the packet carries.
fn judge_packet(queue: &[Bytes], already: &[Bytes], room: usize, l: &Loaded, stats: &mut Enc) -> Result<usize, Fail> {
    let ctx = || {
        format!(
            "queue sizes {:?}, room {room}, {} successful call(s), packet payload {}",
            queue.iter().map(|b| b.len()).collect::<Vec<_>>(),
            l.oks,
            hex(&l.written)
        )
    };
    if l.refused.is_none() {
        return Err(Fail::new(
            "assemble/never-refuses",
            format!("try_load_data_into kept returning Ok beyond the queue length: {}", ctx()),
        ));
    }
    if l.written.len() > room {
        return Err(Fail::new("assemble/wrote-beyond-room", ctx()));
    }
    let items = parse(&l.written)
        .map_err(|e| Fail::new("assemble/packet-does-not-parse", format!("FrameReader: {e}: {}", ctx())))?;
    let dgrams: Vec<(usize, &Item)> = items.iter().enumerate().filter(|(_, i)| matches!(i, Item::Dgram { .. })).collect();
    if dgrams.len() != l.oks {
        return Err(Fail::new(
            "assemble/frames!=successful-calls",
            format!("{} DATAGRAM frame(s) in the packet for {} Ok return(s): {}", dgrams.len(), l.oks, ctx()),
        ));
    }
    if dgrams.len() > queue.len() {
        return Err(Fail::new(
            "assemble/more-frames-than-queued",
            format!("{} frames from a queue of {}: {}", dgrams.len(), queue.len(), ctx()),
        ));
    }
    for (i, (pos, item)) in dgrams.iter().enumerate() {
        let Item::Dgram { with_len, payload, .. } = item else { unreachable!() };
        if payload != &queue[i] {
            let sig = if !payload.is_empty() && queue.iter().skip(i + 1).any(|q| q == payload) {
                "assemble/datagram-skipped-or-reordered"
            } else if !payload.is_empty() && already.iter().any(|a| a == payload) {
                "assemble/datagram-duplicated"
            } else if payload.len() != queue[i].len() {
                "assemble/payload-length-changed"
            } else {
                "assemble/payload-bytes-changed"
            };
            return Err(Fail::new(
                sig,
                format!(
                    "frame {i} carries {} ({} bytes), datagram {i} of the queue is {} ({} bytes): {}",
                    hex(payload),
                    payload.len(),
                    hex(&queue[i]),
                    queue[i].len(),
                    ctx()
                ),
            ));
        }
        if *with_len {
            stats.with_len += 1;
        } else {
            stats.without_len += 1;
            if *pos > 0 && items[*pos - 1] == Item::Pad {
                stats.padded_before += 1;
            }
            // a length-less frame runs to the end of the packet: nothing may follow it, and
            // nobody may be able to append to the packet afterwards
            if *pos + 1 != items.len() || l.written.len() != room {
                return Err(Fail::new(
                    "assemble/length-less-frame-not-at-packet-end",
                    format!(
                        "frame {i} has no length field but {} item(s) follow it and {} byte(s) of the packet are still free: {}",
                        items.len() - *pos - 1,
                        room - l.written.len(),
                        ctx()
                    ),
                ));
            }
        }
    }
    // what PadToFull would do with the rest of the packet must not change what is read
    if l.written.len() < room {
        let mut padded = l.written.clone();
        padded.resize(room, 0);
        let again = parse(&padded)
            .map_err(|e| Fail::new("assemble/padded-packet-does-not-parse", format!("FrameReader: {e}: {}", ctx())))?;
        let a: Vec<&Item> = again.iter().filter(|i| matches!(i, Item::Dgram { .. })).collect();
        let b: Vec<&Item> = dgrams.iter().map(|(_, i)| *i).collect();
        if a != b {
            return Err(Fail::new(
                "assemble/padding-after-the-packet-changes-a-datagram",
                format!("after padding the packet to {room} bytes it reads differently: {}", ctx()),
            ));
        }
    }
    // progress: the next queued datagram stays behind only if its length-carrying frame does
    // not fit into what is left
    if let Some(next) = queue.get(l.oks) {
        let left = room - l.written.len();
        if left >= 1 + vl(next.len()) + next.len() {
            return Err(Fail::new(
                "assemble/stopped-although-next-fits",
                format!(
                    "datagram {} ({} bytes) was left in the queue with {left} bytes of the packet free (refusal {:?}): {}",
                    l.oks,
                    next.len(),
                    l.refused.map(Signals::from_bits_truncate),
                    ctx()
                ),
            ));
        }
    }
    Ok(l.oks)
}

#[derive(Debug, Default, Clone)]
struct Enc {
    with_len: u64,
    without_len: u64,
    padded_before: u64,
}

/// Per-shard accumulator, merged in input order.
#[derive(Default)]
struct Acc {
    evaluations: u64,
    counters: BTreeMap<String, u64>,
    violations: Vec<(String, String, Value)>,
    distinct: BTreeSet<String>,
    samples: Vec<Value>,
    enc: Enc,
    harness_errors: Vec<String>,
}

impl Acc {
    fn count(&mut self, k: &str) {
        *self.counters.entry(k.to_string()).or_default() += 1;
    }
    fn violation(&mut self, sig: &str, detail: String, replay: Value) {
        self.violations.push((sig.to_string(), detail, replay));
    }
    fn fail(&mut self, f: Fail, replay: Value) {
        self.violations.push((f.sig, f.detail, replay));
    }
    fn merge(&mut self, o: Acc) {
        self.evaluations += o.evaluations;
        for (k, n) in o.counters {
            *self.counters.entry(k).or_default() += n;
        }
        self.violations.extend(o.violations);
        self.distinct.extend(o.distinct);
        for s in o.samples {
            if self.samples.len() < 6 {
                self.samples.push(s);
            }
        }
        self.enc.with_len += o.enc.with_len;
        self.enc.without_len += o.enc.without_len;
        self.enc.padded_before += o.enc.padded_before;
        self.harness_errors.extend(o.harness_errors);
    }
    fn file(self, report: &mut Report, name: &str, exhaustive: bool, rule: &str) -> bool {
        for (sig, detail, replay) in &self.violations {
            report.violation(sig, detail, replay.clone());
        }
        let mut extra = Map::new();
        extra.insert("counters".into(), json!(self.counters));
        extra.insert(
            "frame_encodings_seen".into(),
            json!({"with_length": self.enc.with_len, "length_less": self.enc.without_len, "length_less_with_padding_before": self.enc.padded_before}),
        );
        extra.insert("violating_cases".into(), json!(self.violations.len()));
        let machinery = !self.harness_errors.is_empty();
        if machinery {
            extra.insert("harness_errors".into(), json!(self.harness_errors.iter().take(5).collect::<Vec<_>>()));
        }
        report.sub(
            name,
            Coverage {
                evaluations: self.evaluations,
                distinct_nontrivial: self.distinct.len() as u64,
                states: 0,
                transitions: 0,
                traces: 0,
                exhaustive,
                rule: rule.to_string(),
                samples: self.samples,
                extra,
            },
        );
        machinery
    }
}

fn guarded<R>(acc: &mut Acc, stage: &str, replay: &Value, f: impl FnOnce() -> R) -> Option<R> {
    match catch(f) {
        Ok(r) => Some(r),
        Err(p) => {
            acc.violation(
                &format!("panic/{stage}/{}", p.class()),
                format!("{stage} panics at {}: {}", p.location, p.message),
                replay.clone(),
            );
            None
        }
    }
}

struct Count(AtomicUsize);

impl Wake for Count {
    fn wake(self: Arc<Self>) {
        self.0.fetch_add(1, Ordering::SeqCst);
    }
    fn wake_by_ref(self: &Arc<Self>) {
        self.0.fetch_add(1, Ordering::SeqCst);
    }
}

fn counting_waker() -> (Arc<Count>, Waker) {
    let c = Arc::new(Count(AtomicUsize::new(0)));
    (c.clone(), Waker::from(c))
}

fn test_error() -> QuicErr {
    QuicError::new(ErrorKind::ProtocolViolation, FrameType::Datagram(0).into(), "c19a connection error").into()
}

fn is_that_error(e: &std::io::Error, want: &QuicErr) -> bool {
    e.get_ref().and_then(|inner| inner.downcast_ref::<QuicErr>()) == Some(want)
}

// ---------------------------------------------------------------------------------------
// accept
// ---------------------------------------------------------------------------------------

#[derive(Debug, Clone, Serialize, Deserialize)]
struct AcceptCase {
    peer_max: u64,
    len: usize,
    /// `send_bytes` (false) or `send` (true)
    by_slice: bool,
    /// after the decision, also assemble / read back / deliver an accepted datagram
    #[serde(default = "yes")]
    pipeline: bool,
}

fn yes() -> bool {
    true
}

fn check_accept(c: &AcceptCase, acc: &mut Acc, verbose: bool) {
    acc.evaluations += 1;
    let replay = json!({"sub": "accept", "input": serde_json::to_value(c).unwrap()});
    let say = |s: String| {
        if verbose {
            println!("  {s}");
        }
    };
    let flow = DatagramFlow::new(65535, ArcSendWakers::new());
    let Some(writer) = guarded(acc, "DatagramFlow::writer", &replay, || flow.writer(c.peer_max)) else { return };
    let writer = match (writer, c.peer_max) {
        (Err(e), 0) => {
            say(format!("writer({}) refused: {e}", c.peer_max));
            acc.count("peer_disabled_writer_refused");
            return;
        }
        (Ok(_), 0) => {
            acc.violation(
                "accept/writer-created-although-peer-disabled",
                "DatagramFlow::writer(0) returns a writer although the peer's max_datagram_frame_size is 0 (RFC 9221 §3: no DATAGRAM frames may be sent)".into(),
                replay,
            );
            return;
        }
        (Err(e), m) => {
            acc.violation(
                "accept/writer-refused-although-peer-enabled",
                format!("DatagramFlow::writer({m}) is refused on an open connection: {e}"),
                replay,
            );
            return;
        }
        (Ok(w), _) => w,
    };
    let data = accept_pattern(c.len);
    let sent = if c.by_slice {
        guarded(acc, "DatagramWriter::send", &replay, || writer.send(&data))
    } else {
        guarded(acc, "DatagramWriter::send_bytes", &replay, || writer.send_bytes(data.clone()))
    };
    let Some(sent) = sent else { return };
    let fits = 1 + c.len as u64 <= c.peer_max;
    say(format!("send of {} bytes with peer maximum {}: {:?}; smallest frame is {} bytes", c.len, c.peer_max, sent.as_ref().map_err(|e| e.to_string()), 1 + c.len));
    match (&sent, fits) {
        (Ok(()), false) => {
            acc.violation(
                "accept/accepted-although-no-frame-fits",
                format!("a {}-byte datagram is accepted although even the length-less DATAGRAM frame ({} bytes) exceeds the peer's max_datagram_frame_size {}", c.len, 1 + c.len, c.peer_max),
                replay,
            );
            return;
        }
        (Err(e), true) => {
            acc.violation(
                "accept/refused-although-a-frame-fits",
                format!("a {}-byte datagram is refused ({e}) although the length-less DATAGRAM frame ({} bytes) fits the peer's max_datagram_frame_size {}", c.len, 1 + c.len, c.peer_max),
                replay,
            );
            return;
        }
        (Err(_), false) => {
            acc.count("refused");
            acc.distinct.insert(format!("refused/{}/{}", c.peer_max, c.len));
            if !c.pipeline {
                return;
            }
            // a refused datagram must not be queued
            match guarded(acc, "try_load_data_into", &replay, || load_packet(&flow, c.len + 16, 3)) {
                Some(Ok(l)) if l.oks > 0 || !l.written.is_empty() => acc.violation(
                    "accept/refused-datagram-was-queued",
                    format!("the refused {}-byte datagram is emitted by the assembler afterwards: {}", c.len, hex(&l.written)),
                    replay,
                ),
                Some(Err(e)) => acc.harness_errors.push(e),
                _ => {}
            }
            return;
        }
        (Ok(()), true) => {}
    }
    acc.count("accepted");
    acc.distinct.insert(format!("accepted/{}/{}", c.peer_max, c.len));
    if !c.pipeline {
        return;
    }
    acc.count("accepted_and_followed_to_the_peer");
    // accepted: it must go out as one frame that the peer (local maximum = what it advertised)
    // accepts and hands to its application. Two packets: ample room, exact room (1 + len).
    for (which, room) in [("ample", c.len + 16), ("exact", c.len + 1)] {
        if which == "exact" {
            // queue it again for the second packet
            let again = if c.by_slice { writer.send(&data) } else { writer.send_bytes(data.clone()) };
            if again.is_err() {
                acc.violation("accept/refused-although-a-frame-fits", "the same datagram is refused the second time".into(), replay.clone());
                return;
            }
        }
        let l = match guarded(acc, "try_load_data_into", &replay, || load_packet(&flow, room, 3)) {
            Some(Ok(l)) => l,
            Some(Err(e)) => {
                acc.harness_errors.push(e);
                return;
            }
            None => return,
        };
        let mut enc = Enc::default();
        match judge_packet(std::slice::from_ref(&data), &[], room, &l, &mut enc) {
            Err(f) => {
                acc.fail(f, replay.clone());
                return;
            }
            Ok(0) => {
                acc.violation(
                    "assemble/accepted-datagram-not-emitted",
                    format!("the accepted {}-byte datagram is not emitted into a packet with {room} bytes of room (refusal {:?})", c.len, l.refused.map(Signals::from_bits_truncate)),
                    replay.clone(),
                );
                return;
            }
            Ok(_) => {}
        }
        acc.enc.with_len += enc.with_len;
        acc.enc.without_len += enc.without_len;
        acc.enc.padded_before += enc.padded_before;
        let items = parse(&l.written).unwrap_or_default();
        let Some(Item::Dgram { wire, with_len, payload, frame }) = items.into_iter().find(|i| matches!(i, Item::Dgram { .. })) else { return };
        say(format!("{which} room {room}: frame of {wire} bytes on the wire ({}), packet payload {}", if with_len { "with length" } else { "length-less" }, hex(&l.written)));
        if wire as u64 > c.peer_max {
            acc.count(&format!("frame_exceeds_peer_max/{which}"));
            // what the peer does with it (for the record; RFC 9221 §3 obliges it to close)
            let peer = DatagramFlow::new(c.peer_max, ArcSendWakers::new());
            let verdict = catch(|| peer.recv_frame((frame, payload.clone())));
            acc.violation(
                "assemble/frame-larger-than-peer-maximum",
                format!(
                    "a {}-byte datagram is accepted for a peer whose max_datagram_frame_size is {} (1 + {} fits) but the assembler emits it with a length field: the DATAGRAM frame is {wire} bytes on the wire ({which} room {room}); RFC 9221 §3 forbids sending a frame larger than the peer's value, and a receiving DatagramFlow with that local maximum answers {:?}",
                    c.len,
                    c.peer_max,
                    c.len,
                    verdict.map(|r| r.map_err(|e| e.to_string())).map_err(|p| p.class())
                ),
                replay.clone(),
            );
            continue;
        }
        // the peer
        let peer = DatagramFlow::new(c.peer_max, ArcSendWakers::new());
        let Some(r) = guarded(acc, "recv_frame", &replay, || peer.recv_frame((frame, payload.clone()))) else { return };
        if let Err(e) = r {
            acc.violation(
                "recv/in-limit-frame-refused",
                format!("a {wire}-byte DATAGRAM frame is refused by a receiver whose local maximum is {}: {e}", c.peer_max),
                replay.clone(),
            );
            return;
        }
        let got = guarded(acc, "DatagramReader::poll_recv", &replay, || {
            let reader = peer.reader()?;
            let (_c, w) = counting_waker();
            match reader.poll_recv(&mut Context::from_waker(&w)) {
                Poll::Ready(r) => r,
                Poll::Pending => Err(std::io::Error::other("pending")),
            }
        });
        match got {
            Some(Ok(b)) if b == data => acc.count(&format!("delivered_unchanged/{which}")),
            Some(other) => {
                acc.violation(
                    "recv/delivered-datagram-differs",
                    format!("sent {} ({} bytes), the peer's reader returns {:?}", hex(&data), data.len(), other.map(|b| hex(&b)).map_err(|e| e.to_string())),
                    replay.clone(),
                );
                return;
            }
            None => return,
        }
    }
}

/// `send_bytes` wakes the sending tasks (otherwise nothing would ever call the assembler).
fn check_send_wakes(acc: &mut Acc) {
    acc.evaluations += 1;
    let replay = json!({"sub": "accept", "input": "send-wakes"});
    let wakers = ArcSendWakers::new();
    let a: SocketAddr = "127.0.0.1:1".parse().unwrap();
    let b: SocketAddr = "127.0.0.1:2".parse().unwrap();
    let tx = ArcSendWaker::new();
    wakers.insert(Pathway::new(EndpointAddr::direct(a), EndpointAddr::direct(b)), &tx);
    let flow = DatagramFlow::new(1200, wakers);
    let Ok(writer) = flow.writer(1200) else { return };
    let (count, waker) = counting_waker();
    let txc = tx.clone();
    let mut fut: Pin<Box<dyn Future<Output = ()>>> = Box::pin(async move { txc.wait_for(Signals::TRANSPORT).await });
    let mut cx = Context::from_waker(&waker);
    if fut.as_mut().poll(&mut cx).is_ready() {
        acc.harness_errors.push("wait_for(TRANSPORT) is ready on a fresh waker".into());
        return;
    }
    let r = guarded(acc, "DatagramWriter::send_bytes", &replay, || writer.send_bytes(pattern(10, 1)));
    if !matches!(r, Some(Ok(()))) {
        return;
    }
    let fired = count.0.load(Ordering::SeqCst) > 0;
    let ready = fut.as_mut().poll(&mut cx).is_ready();
    if fired && ready {
        acc.count("send_wakes_the_sending_task");
    } else {
        acc.violation(
            "accept/sender-not-woken",
            format!("a path's sending task waits in wait_for(TRANSPORT); send_bytes accepted a datagram but the task's waker fired: {fired}, wait_for ready: {ready}"),
            replay,
        );
    }
}

fn run_accept(thorough: bool) -> Acc {
    let mut chunks: Vec<Vec<AcceptCase>> = Vec::new();
    for &peer_max in &PEER_MAXES {
        let mut cur = Vec::new();
        let top = peer_max as usize + 2;
        for len in 0..=top {
            // the decision is taken for every size; in the quick tier the 64 KiB sweep follows
            // only the varint / limit boundaries and every 251st size all the way to the peer
            let boundary = len <= 1300
                || (16380..=16390).contains(&len)
                || len + 8 >= top
                || len % 251 == 0;
            let pipeline = thorough || boundary;
            cur.push(AcceptCase { peer_max, len, by_slice: false, pipeline });
            if pipeline {
                cur.push(AcceptCase { peer_max, len, by_slice: true, pipeline });
            }
            if cur.len() >= 1024 {
                chunks.push(std::mem::take(&mut cur));
            }
        }
        if !cur.is_empty() {
            chunks.push(cur);
        }
    }
    let parts = mc_core::par::par_map(&chunks, |chunk| {
        let mut acc = Acc::default();
        for c in chunk {
            check_accept(c, &mut acc, false);
        }
        // keep one witness per (signature, peer_max) and shard to bound memory; hits are summed later
        acc
    });
    let mut acc = Acc::default();
    for p in parts {
        acc.merge(p);
    }
    check_send_wakes(&mut acc);
    acc.samples.push(json!({"peer_max": 64, "len": 63, "expected": "accepted (1+63 <= 64)"}));
    acc.samples.push(json!({"peer_max": 64, "len": 64, "expected": "refused (1+64 > 64)"}));
    acc.samples.push(json!({"peer_max": 0, "len": 0, "expected": "writer creation refused"}));
    acc
}

// ---------------------------------------------------------------------------------------
// assemble
// ---------------------------------------------------------------------------------------

#[derive(Debug, Clone, Serialize, Deserialize)]
struct AsmCase {
    sizes: Vec<usize>,
    room: usize,
}

fn ample_room(sizes: &[usize]) -> usize {
    sizes.iter().sum::<usize>() + 3 * sizes.len() + 12
}

fn check_assemble(c: &AsmCase, acc: &mut Acc, verbose: bool) {
    acc.evaluations += 1;
    let replay = json!({"sub": "assemble", "input": serde_json::to_value(c).unwrap()});
    let flow = DatagramFlow::new(65535, ArcSendWakers::new());
    let Ok(writer) = flow.writer(65535) else {
        acc.harness_errors.push("writer(65535) refused".into());
        return;
    };
    let queue: Vec<Bytes> = c.sizes.iter().enumerate().map(|(i, &n)| pattern(n, 3 + 17 * i as u8)).collect();
    for d in &queue {
        if let Some(Err(e)) = guarded(acc, "DatagramWriter::send_bytes", &replay, || writer.send_bytes(d.clone())) {
            acc.harness_errors.push(format!("send_bytes of {} bytes refused with peer maximum 65535: {e}", d.len()));
            return;
        }
    }
    let k = queue.len();
    // first packet: `room` bytes
    let l1 = match guarded(acc, "try_load_data_into", &replay, || load_packet(&flow, c.room, k + 2)) {
        Some(Ok(l)) => l,
        Some(Err(e)) => {
            acc.harness_errors.push(e);
            return;
        }
        None => return,
    };
    if verbose {
        println!("  packet 1 (room {}): {} Ok, refusal {:?}, payload {}", c.room, l1.oks, l1.refused.map(Signals::from_bits_truncate), hex(&l1.written));
    }
    let mut enc = Enc::default();
    let n1 = match judge_packet(&queue, &[], c.room, &l1, &mut enc) {
        Ok(n) => n,
        Err(f) => {
            acc.fail(f, replay);
            return;
        }
    };
    // second packet: ample room for everything — what was not emitted is still queued
    let ample = ample_room(&c.sizes);
    let l2 = match guarded(acc, "try_load_data_into", &replay, || load_packet(&flow, ample, k + 2)) {
        Some(Ok(l)) => l,
        Some(Err(e)) => {
            acc.harness_errors.push(e);
            return;
        }
        None => return,
    };
    if verbose {
        println!("  packet 2 (room {ample}): {} Ok, refusal {:?}, payload {}", l2.oks, l2.refused.map(Signals::from_bits_truncate), hex(&l2.written));
    }
    let n2 = match judge_packet(&queue[n1..], &queue[..n1], ample, &l2, &mut enc) {
        Ok(n) => n,
        Err(f) => {
            acc.fail(f, replay);
            return;
        }
    };
    if n1 + n2 != k {
        acc.violation(
            "assemble/datagram-lost",
            format!("queue sizes {:?}: {n1} emitted into a packet with {} bytes of room, {n2} into the next one with ample room ({ample}); {} never appear", c.sizes, c.room, k - n1 - n2),
            replay,
        );
        return;
    }
    // third packet: the queue is empty now
    match guarded(acc, "try_load_data_into", &replay, || load_packet(&flow, ample, 2)) {
        Some(Ok(l3)) if l3.oks > 0 || !l3.written.is_empty() => {
            acc.violation(
                "assemble/emits-from-an-empty-queue",
                format!("queue sizes {:?}: after everything was emitted a third packet receives {}", c.sizes, hex(&l3.written)),
                replay,
            );
            return;
        }
        Some(Err(e)) => {
            acc.harness_errors.push(e);
            return;
        }
        None => return,
        _ => {}
    }
    acc.enc.with_len += enc.with_len;
    acc.enc.without_len += enc.without_len;
    acc.enc.padded_before += enc.padded_before;
    acc.count(&format!("first_packet_carries_{n1}_of_{k}"));
    if enc.without_len > 0 {
        acc.count("cases_with_a_length_less_frame");
    }
    if enc.padded_before > 0 {
        acc.count("cases_with_padding_before_a_length_less_frame");
    }
    // non-trivial: the packet boundary cut the queue, or the tight (length-less) form was used
    if (n1 > 0 && n1 < k) || enc.without_len > 0 {
        acc.distinct.insert(format!("{:?}/{}", c.sizes, c.room));
    }
    if acc.samples.len() < 3 && enc.padded_before > 0 {
        acc.samples.push(json!({"sizes": c.sizes, "room": c.room, "first_packet": hex(&l1.written), "emitted_first": n1}));
    }
}

fn asm_tuples() -> Vec<Vec<usize>> {
    let mut out = Vec::new();
    for &a in &SIZES {
        out.push(vec![a]);
        for &b in &SIZES {
            out.push(vec![a, b]);
            for &c in &SIZES {
                out.push(vec![a, b, c]);
            }
        }
    }
    out
}

fn run_assemble(thorough: bool) -> Acc {
    let mut tuples = asm_tuples();
    if thorough {
        // the 2-byte / 4-byte length boundary
        for b in [16382usize, 16383, 16384] {
            tuples.push(vec![b]);
            for s in [0usize, 64] {
                tuples.push(vec![s, b]);
                tuples.push(vec![b, s]);
            }
        }
    }
    let parts = mc_core::par::par_map(&tuples, |sizes| {
        let mut acc = Acc::default();
        for room in 0..=ample_room(sizes) {
            check_assemble(&AsmCase { sizes: sizes.clone(), room }, &mut acc, false);
        }
        acc
    });
    let mut acc = Acc::default();
    for p in parts {
        acc.merge(p);
    }
    *acc.counters.entry("queues_enumerated".into()).or_default() += tuples.len() as u64;
    acc
}

/// Measured for the evidence notes (not a verdict of this part): a datagram larger than any
/// packet stays at the head of the queue and keeps every later one from being emitted.
fn oversize_observation() -> String {
    let flow = DatagramFlow::new(65535, ArcSendWakers::new());
    let Ok(writer) = flow.writer(65535) else { return "writer refused".into() };
    let big = writer.send_bytes(pattern(60000, 1)).is_ok();
    let small = writer.send_bytes(pattern(10, 2)).is_ok();
    let mut emitted = 0;
    for _ in 0..3 {
        if let Ok(Ok(l)) = catch(|| load_packet(&flow, 1200 - 1 - 4 - 16, 4)) {
            emitted += l.oks;
        }
    }
    format!(
        "observation (not judged here): with peer maximum 65535 a 60000-byte datagram is accepted: {big}, a following 10-byte datagram is accepted: {small}; three successive 1200-byte packets then carry {emitted} datagram(s) — try_load_data_into only looks at the head of the queue, so a datagram that fits the peer's maximum but no packet blocks the ones behind it; the writer has no knowledge of the path MTU"
    )
}

// ---------------------------------------------------------------------------------------
// recv
// ---------------------------------------------------------------------------------------

#[derive(Debug, Clone, Serialize, Deserialize)]
#[serde(tag = "kind")]
enum RecvCase {
    /// one frame against a local maximum
    One { local_max: u64, len: usize, with_len: bool },
    /// several in-limit frames, read afterwards (`poll_first`: the reader polls before the
    /// first arrival and must be woken)
    Seq { local_max: u64, sizes: Vec<usize>, poll_first: bool },
}

fn wire_frame(len: usize, with_len: bool, seed: u8) -> (Vec<u8>, Bytes) {
    let payload = pattern(len, seed);
    let mut w = Vec::with_capacity(len + 5);
    if with_len {
        w.push(0x31);
        put_varint(&mut w, len);
    } else {
        w.push(0x30);
    }
    w.extend_from_slice(&payload);
    (w, payload)
}

fn poll_reader(reader: &mut DatagramReader, by_future: bool, waker: &Waker) -> Poll<std::io::Result<Bytes>> {
    let mut cx = Context::from_waker(waker);
    if by_future {
        let mut fut = reader.recv();
        Pin::new(&mut fut).poll(&mut cx)
    } else {
        reader.poll_recv(&mut cx)
    }
}

fn check_recv(c: &RecvCase, acc: &mut Acc, verbose: bool) {
    acc.evaluations += 1;
    let replay = json!({"sub": "recv", "input": serde_json::to_value(c).unwrap()});
    match c {
        RecvCase::One { local_max, len, with_len } => {
            let (local_max, len, with_len) = (*local_max, *len, *with_len);
            let flow = DatagramFlow::new(local_max, ArcSendWakers::new());
            let (wire, payload) = wire_frame(len, with_len, 0x21);
            let items = match parse(&wire) {
                Ok(i) => i,
                Err(e) => {
                    acc.harness_errors.push(format!("frame {} does not parse: {e}", hex(&wire)));
                    return;
                }
            };
            let [Item::Dgram { frame, payload: parsed, wire: size, .. }] = items.as_slice() else {
                acc.harness_errors.push(format!("frame {} parses as {} items", hex(&wire), items.len()));
                return;
            };
            if *size != wire.len() || parsed != &payload {
                acc.harness_errors.push(format!("frame {} reads back differently", hex(&wire)));
                return;
            }
            let reader = guarded(acc, "DatagramFlow::reader", &replay, || flow.reader());
            let Some(reader) = reader else { return };
            if local_max == 0 && reader.is_ok() {
                acc.violation(
                    "recv/reader-created-although-disabled",
                    "DatagramFlow::reader() succeeds although the local max_datagram_frame_size is 0".into(),
                    replay.clone(),
                );
            }
            if local_max > 0 && reader.is_err() {
                acc.violation(
                    "recv/reader-refused-although-enabled",
                    format!("DatagramFlow::reader() fails with local maximum {local_max} on an open connection"),
                    replay.clone(),
                );
                return;
            }
            let Some(r) = guarded(acc, "recv_frame", &replay, || flow.recv_frame((*frame, parsed.clone()))) else { return };
            let over = wire.len() as u64 > local_max;
            if verbose {
                println!("  frame of {} bytes ({}), local maximum {local_max}: {:?}", wire.len(), if with_len { "with length" } else { "length-less" }, r.as_ref().map_err(|e| e.to_string()));
            }
            match (r, over) {
                (Ok(()), true) => {
                    acc.violation(
                        "recv/oversize-frame-accepted",
                        format!("a DATAGRAM frame of {} bytes ({} payload, {}) is accepted with local max_datagram_frame_size {local_max}; RFC 9221 §3 requires PROTOCOL_VIOLATION", wire.len(), len, if with_len { "with length" } else { "length-less" }),
                        replay,
                    );
                }
                (Err(e), false) => {
                    acc.violation(
                        "recv/in-limit-frame-refused",
                        format!("a DATAGRAM frame of {} bytes is refused with local max_datagram_frame_size {local_max}: {e}", wire.len()),
                        replay,
                    );
                }
                (Err(e), true) => {
                    if e.kind() != ErrorKind::ProtocolViolation || !matches!(e, QuicErr::Quic(_)) {
                        acc.violation(
                            "recv/oversize-frame-wrong-error",
                            format!("an oversize DATAGRAM frame ({} bytes, local maximum {local_max}) yields {e:?} instead of a PROTOCOL_VIOLATION connection error", wire.len()),
                            replay,
                        );
                        return;
                    }
                    acc.count("oversize_protocol_violation");
                    acc.distinct.insert(format!("over/{local_max}/{len}/{with_len}"));
                    // the connection reacts with on_conn_error (qconnection/src/lib.rs:339):
                    // afterwards everything fails with that error
                    let writer = flow.writer(1200);
                    if guarded(acc, "on_conn_error", &replay, || flow.on_conn_error(&e)).is_none() {
                        return;
                    }
                    let mut still: Vec<&str> = Vec::new();
                    if let Ok(mut rd) = reader {
                        let (_c, w) = counting_waker();
                        match poll_reader(&mut rd, len % 2 == 1, &w) {
                            Poll::Ready(Err(io)) if is_that_error(&io, &e) => {}
                            _ => still.push("DatagramReader::poll_recv"),
                        }
                    }
                    match flow.reader() {
                        Err(io) if is_that_error(&io, &e) => {}
                        _ => still.push("DatagramFlow::reader"),
                    }
                    match flow.writer(1200) {
                        Err(io) if is_that_error(&io, &e) => {}
                        _ => still.push("DatagramFlow::writer"),
                    }
                    if let Ok(w) = writer {
                        match w.send_bytes(pattern(3, 1)) {
                            Err(io) if is_that_error(&io, &e) => {}
                            _ => still.push("DatagramWriter::send_bytes"),
                        }
                        match w.send(&[1, 2, 3]) {
                            Err(io) if is_that_error(&io, &e) => {}
                            _ => still.push("DatagramWriter::send"),
                        }
                    }
                    match flow.recv_frame((DatagramFrame::new(false, qbase::varint::VarInt::from_u32(0)), Bytes::new())) {
                        Err(e2) if e2 == e => {}
                        _ => still.push("recv_frame"),
                    }
                    match load_packet(&flow, 100, 2) {
                        Ok(l) if l.oks == 0 && l.written.is_empty() => {}
                        _ => still.push("try_load_data_into"),
                    }
                    if still.is_empty() {
                        acc.count("everything_fails_after_the_error");
                    } else {
                        acc.violation(
                            &format!("recv/usable-after-connection-error/{}", still.join("+")),
                            format!("after on_conn_error({e}) these do not fail with that error: {still:?}"),
                            replay,
                        );
                    }
                }
                (Ok(()), false) => {
                    acc.count("in_limit_accepted");
                    acc.distinct.insert(format!("in/{local_max}/{len}/{with_len}"));
                    let Ok(mut rd) = reader else { return };
                    let (_c, w) = counting_waker();
                    match guarded(acc, "DatagramReader::poll_recv", &replay, || poll_reader(&mut rd, len % 2 == 1, &w)) {
                        Some(Poll::Ready(Ok(b))) if b == payload => {}
                        Some(other) => {
                            acc.violation(
                                "recv/delivered-datagram-differs",
                                format!("received {} ({} bytes), the reader returns {:?}", hex(&payload), payload.len(), other.map(|r| r.map(|b| hex(&b)).map_err(|e| e.to_string()))),
                                replay,
                            );
                            return;
                        }
                        None => return,
                    }
                    match guarded(acc, "DatagramReader::poll_recv", &replay, || poll_reader(&mut rd, false, &w)) {
                        Some(Poll::Pending) => {}
                        Some(other) => acc.violation(
                            "recv/phantom-datagram",
                            format!("one frame was received and read; a second read returns {:?}", other.map(|r| r.map(|b| hex(&b)).map_err(|e| e.to_string()))),
                            replay,
                        ),
                        None => {}
                    }
                }
            }
        }
        RecvCase::Seq { local_max, sizes, poll_first } => {
            let flow = DatagramFlow::new(*local_max, ArcSendWakers::new());
            let Ok(mut rd) = flow.reader() else {
                acc.harness_errors.push(format!("reader() refused with local maximum {local_max}"));
                return;
            };
            let (count, w) = counting_waker();
            if *poll_first {
                match guarded(acc, "DatagramReader::poll_recv", &replay, || poll_reader(&mut rd, true, &w)) {
                    Some(Poll::Pending) => {}
                    Some(other) => {
                        acc.violation(
                            "recv/phantom-datagram",
                            format!("nothing was received yet, the reader returns {:?}", other.map(|r| r.map(|b| hex(&b)).map_err(|e| e.to_string()))),
                            replay,
                        );
                        return;
                    }
                    None => return,
                }
            }
            let mut expect = Vec::new();
            for (i, &len) in sizes.iter().enumerate() {
                let (wire, payload) = wire_frame(len, i % 2 == 0, 0x31 + 7 * i as u8);
                // every frame but the last of a packet needs a length; parse each on its own
                let Ok(items) = parse(&wire) else { return };
                let [Item::Dgram { frame, payload: parsed, .. }] = items.as_slice() else { return };
                match guarded(acc, "recv_frame", &replay, || flow.recv_frame((*frame, parsed.clone()))) {
                    Some(Ok(())) => expect.push(payload),
                    Some(Err(e)) => {
                        acc.violation(
                            "recv/in-limit-frame-refused",
                            format!("frame {i} of {sizes:?} ({} bytes on the wire) is refused with local maximum {local_max}: {e}", wire.len()),
                            replay,
                        );
                        return;
                    }
                    None => return,
                }
                if *poll_first && i == 0 && count.0.load(Ordering::SeqCst) == 0 {
                    acc.violation(
                        "recv/reader-not-woken",
                        "a reader that polled before the first arrival is not woken by recv_frame".into(),
                        replay,
                    );
                    return;
                }
            }
            let mut got = Vec::new();
            for i in 0..=sizes.len() {
                match guarded(acc, "DatagramReader::poll_recv", &replay, || poll_reader(&mut rd, i % 2 == 0, &w)) {
                    Some(Poll::Ready(Ok(b))) => got.push(b),
                    Some(Poll::Ready(Err(e))) => {
                        acc.violation("recv/read-fails-on-open-connection", format!("read {i} of {sizes:?} fails: {e}"), replay);
                        return;
                    }
                    Some(Poll::Pending) => break,
                    None => return,
                }
            }
            if verbose {
                println!("  received sizes {sizes:?}, read sizes {:?}", got.iter().map(|b| b.len()).collect::<Vec<_>>());
            }
            if got != expect {
                let sig = if got.len() != expect.len() {
                    "recv/datagram-count-differs"
                } else {
                    let mut a: Vec<&Bytes> = got.iter().collect();
                    let mut b: Vec<&Bytes> = expect.iter().collect();
                    a.sort();
                    b.sort();
                    if a == b { "recv/order-not-fifo" } else { "recv/delivered-datagram-differs" }
                };
                acc.violation(
                    sig,
                    format!("received {:?} in this order, the reader returns {:?}", expect.iter().map(|b| hex(b)).collect::<Vec<_>>(), got.iter().map(|b| hex(b)).collect::<Vec<_>>()),
                    replay,
                );
                return;
            }
            acc.count("sequence_read_back_fifo");
            if sizes.len() > 1 {
                acc.distinct.insert(format!("seq/{local_max}/{sizes:?}/{poll_first}"));
            }
            // a waiting reader is woken by a connection error and sees it
            let e = test_error();
            let before = count.0.load(Ordering::SeqCst);
            let pending = matches!(poll_reader(&mut rd, false, &w), Poll::Pending);
            flow.on_conn_error(&e);
            let woken = count.0.load(Ordering::SeqCst) > before;
            match poll_reader(&mut rd, true, &w) {
                Poll::Ready(Err(io)) if is_that_error(&io, &e) && (woken || !pending) => acc.count("waiting_reader_sees_the_error"),
                other => acc.violation(
                    "recv/waiting-reader-not-failed-by-connection-error",
                    format!("reader pending: {pending}, woken by on_conn_error: {woken}, then reads {:?}", other.map(|r| r.map(|b| hex(&b)).map_err(|e| e.to_string()))),
                    replay,
                ),
            }
        }
    }
}

fn recv_cases() -> Vec<RecvCase> {
    let mut v = Vec::new();
    for &local_max in &LOCAL_MAXES {
        for len in 0..=(local_max as usize + 3) {
            for with_len in [true, false] {
                v.push(RecvCase::One { local_max, len, with_len });
            }
        }
        if local_max > 0 {
            for sizes in asm_tuples() {
                // in-limit in both encodings
                if sizes.iter().all(|&n| (1 + vl(n) + n) as u64 <= local_max) {
                    for poll_first in [false, true] {
                        v.push(RecvCase::Seq { local_max, sizes: sizes.clone(), poll_first });
                    }
                }
            }
        }
    }
    v
}

fn run_recv() -> Acc {
    let cases = recv_cases();
    let chunks: Vec<&[RecvCase]> = cases.chunks(256).collect();
    let parts = mc_core::par::par_map(&chunks, |chunk| {
        let mut acc = Acc::default();
        for c in chunk.iter() {
            check_recv(c, &mut acc, false);
        }
        acc
    });
    let mut acc = Acc::default();
    for p in parts {
        acc.merge(p);
    }
    acc.samples.push(json!({"local_max": 64, "len": 63, "with_len": true, "wire": 65, "expected": "PROTOCOL_VIOLATION"}));
    acc.samples.push(json!({"local_max": 64, "len": 63, "with_len": false, "wire": 64, "expected": "delivered"}));
    acc
}

// ---------------------------------------------------------------------------------------
// history (E1)
// ---------------------------------------------------------------------------------------

#[derive(Debug, Clone, Serialize, Deserialize)]
pub enum HOp {
    Send { len: usize },
    Load { room: usize },
    ConnError,
}

pub struct HSys {
    lens: Vec<usize>,
    rooms: Vec<usize>,
    flow: DatagramFlow,
    writer: qdatagram::DatagramWriter,
    // reference
    queue: Vec<Bytes>,
    emitted: Vec<Bytes>,
    seq: u8,
    closed: bool,
}

impl HSys {
    fn new(lens: &[usize], rooms: &[usize]) -> HSys {
        let flow = DatagramFlow::new(65535, ArcSendWakers::new());
        let writer = flow.writer(200).expect("writer(200) on a fresh flow");
        HSys { lens: lens.to_vec(), rooms: rooms.to_vec(), flow, writer, queue: Vec::new(), emitted: Vec::new(), seq: 0, closed: false }
    }
}

impl System for HSys {
    type Op = HOp;

    fn ops(&self) -> Vec<HOp> {
        let mut v = Vec::new();
        if self.queue.len() < 3 {
            for &len in &self.lens {
                v.push(HOp::Send { len });
            }
        }
        for &room in &self.rooms {
            v.push(HOp::Load { room });
        }
        if !self.closed {
            v.push(HOp::ConnError);
        }
        v
    }

    fn step(&mut self, op: &HOp) -> Result<(), Fail> {
        match *op {
            HOp::Send { len } => {
                let data = pattern(len, 0x40 + self.seq);
                self.seq = (self.seq + 1) % 3;
                let r = self.writer.send_bytes(data.clone());
                match (r, self.closed) {
                    (Ok(()), false) => self.queue.push(data),
                    (Err(e), false) => {
                        return Err(Fail::new("accept/refused-although-a-frame-fits", format!("{len}-byte datagram refused with peer maximum 200: {e}")));
                    }
                    (Err(e), true) if is_that_error(&e, &test_error()) => {}
                    (r, true) => {
                        return Err(Fail::new(
                            "recv/usable-after-connection-error/DatagramWriter::send_bytes",
                            format!("send_bytes after on_conn_error returns {:?}", r.map_err(|e| e.to_string())),
                        ));
                    }
                }
            }
            HOp::Load { room } => {
                let l = load_packet(&self.flow, room, self.queue.len() + 2).map_err(|e| Fail::new("machinery/writer", e))?;
                if self.closed {
                    if l.oks > 0 || !l.written.is_empty() {
                        return Err(Fail::new(
                            "recv/usable-after-connection-error/try_load_data_into",
                            format!("after on_conn_error the assembler still emits {}", hex(&l.written)),
                        ));
                    }
                    return Ok(());
                }
                let mut enc = Enc::default();
                let n = judge_packet(&self.queue, &self.emitted, room, &l, &mut enc)?;
                let sent: Vec<Bytes> = self.queue.drain(..n).collect();
                self.emitted.extend(sent);
                let keep = self.emitted.len().saturating_sub(3);
                self.emitted.drain(..keep);
            }
            HOp::ConnError => {
                self.flow.on_conn_error(&test_error());
                self.closed = true;
                self.queue.clear();
            }
        }
        Ok(())
    }

    fn canon(&self) -> String {
        format!(
            "{:?}|{:?}|{}|{}",
            self.queue.iter().map(|b| (b.len(), b.first().copied())).collect::<Vec<_>>(),
            self.emitted.iter().map(|b| (b.len(), b.first().copied())).collect::<Vec<_>>(),
            self.seq,
            self.closed
        )
    }

    /// From every state: one packet with ample room carries everything that is queued.
    fn finish(&mut self) -> Result<(), Fail> {
        if self.closed {
            return Ok(());
        }
        let room = self.queue.iter().map(|b| b.len() + 3).sum::<usize>() + 12;
        self.step(&HOp::Load { room })?;
        if !self.queue.is_empty() {
            return Err(Fail::new(
                "assemble/datagram-lost",
                format!("a packet with {room} bytes of room leaves {} datagram(s) queued", self.queue.len()),
            ));
        }
        Ok(())
    }

    fn outcome(&self) -> Option<String> {
        Some(format!("q{}{}", self.queue.len(), if self.closed { "closed" } else { "" }))
    }
}

// ---------------------------------------------------------------------------------------

fn replay(r: &Value) -> i32 {
    let sub = r["sub"].as_str().unwrap_or("");
    let mut acc = Acc::default();
    match sub {
        "accept" => match serde_json::from_value::<AcceptCase>(r["input"].clone()) {
            Ok(c) => check_accept(&c, &mut acc, true),
            Err(_) => check_send_wakes(&mut acc),
        },
        "assemble" => match serde_json::from_value::<AsmCase>(r["input"].clone()) {
            Ok(c) => check_assemble(&c, &mut acc, true),
            Err(e) => {
                eprintln!("replay: cannot parse input: {e}");
                return 2;
            }
        },
        "recv" => match serde_json::from_value::<RecvCase>(r["input"].clone()) {
            Ok(c) => check_recv(&c, &mut acc, true),
            Err(e) => {
                eprintln!("replay: cannot parse input: {e}");
                return 2;
            }
        },
        "history" => {
            let lens: Vec<usize> = serde_json::from_value(r["config"]["lens"].clone()).unwrap_or_default();
            let rooms: Vec<usize> = serde_json::from_value(r["config"]["rooms"].clone()).unwrap_or_default();
            return match mc_core::explore::replay(|| HSys::new(&lens, &rooms), &r["history"]) {
                Ok(()) => {
                    println!("replay: no violation");
                    0
                }
                Err(f) => {
                    println!("replay: {} — {}", f.sig, f.detail);
                    1
                }
            };
        }
        other => {
            eprintln!("replay: unknown sub-check {other:?}");
            return 2;
        }
    }
    for (k, n) in &acc.counters {
        println!("  {k} = {n}");
    }
    for e in &acc.harness_errors {
        println!("  harness error: {e}");
    }
    if acc.violations.is_empty() {
        println!("replay: no violation");
        0
    } else {
        for (sig, detail, _) in &acc.violations {
            println!("replay: {sig} — {detail}");
        }
        1
    }
}

pub fn run(args: &Args) -> i32 {
    let mut report = Report::new(args, "exploration");
    report.assume("RFC 9221 §3: max_datagram_frame_size bounds the whole DATAGRAM frame (type + optional length + payload); a datagram cannot fit iff 1 + len exceeds it");
    report.assume("the packet target is a real 1-RTT qbase PacketWriter with transparent keys and a 4-byte packet number; try_load_data_into is called until it refuses (one datagram per call)");
    report.assume("a connection error reaches the flow through DatagramFlow::on_conn_error, as in qconnection/src/lib.rs");
    report.notes.push("gap outside this part (judged by part (b), full stack): DatagramFlow::try_load_data_into has no caller in qconnection — qconnection/src/path/burst.rs Components::packages has `// TODO: datagram` in both the 0-RTT and the 1-RTT package lists — so a datagram accepted by a connection's DatagramWriter is never put on the wire end to end".into());

    if let Some(p) = &args.replay {
        return replay(&mc_core::report::load_replay(p));
    }
    let mut machinery = false;

    if args.wants("accept") {
        let acc = run_accept(args.thorough);
        machinery |= acc.file(
            &mut report,
            "accept",
            true,
            if args.thorough {
                "every datagram size 0..=max+2 for every peer max_datagram_frame_size in {0,1,2,3,64,65,1200,65535}, through send_bytes and send; every accepted one is assembled with ample and with exact room, read back with FrameReader and handed to a receiving DatagramFlow whose local maximum is the same value; non-trivial = every (max, size) pair, each is either an accept or a refuse decision"
            } else {
                "accept/refuse decision for every datagram size 0..=max+2 for every peer max_datagram_frame_size in {0,1,2,3,64,65,1200,65535} (send_bytes; send as well where followed further); followed further = assembled with ample and with exact room, read back with FrameReader and handed to a receiving DatagramFlow whose local maximum is the same value: every size for max <= 1200, and for 65535 sizes 0..=1300, 16380..=16390, 65529..=65537 and every 251st; non-trivial = every (max, size) pair, each is either an accept or a refuse decision"
            },
        );
    }
    if args.wants("assemble") {
        let acc = run_assemble(args.thorough);
        machinery |= acc.file(
            &mut report,
            "assemble",
            true,
            if args.thorough {
                "every queue of 1-3 datagrams with sizes from {0,1,5,62,63,64,100}, plus [b], [s,b], [b,s] for b in {16382,16383,16384}, s in {0,64}, x every remaining-space value 0..=sum+3k+12 of a real PacketWriter; then a packet with ample room, then a third; non-trivial = the packet boundary cut the queue or a length-less frame was produced"
            } else {
                "every queue of 1-3 datagrams with sizes from {0,1,5,62,63,64,100} x every remaining-space value 0..=sum+3k+12 of a real PacketWriter; then a packet with ample room, then a third; non-trivial = the packet boundary cut the queue or a length-less frame was produced"
            },
        );
        report.notes.push(oversize_observation());
    }
    if args.wants("recv") {
        let acc = run_recv();
        machinery |= acc.file(
            &mut report,
            "recv",
            true,
            "local max_datagram_frame_size in {0,64,1200} x payload 0..=max+3 x {with length, length-less} through FrameReader + recv_frame, read through poll_recv / recv(); all in-limit sequences of 1-3 frames with sizes from {0,1,5,62,63,64,100}, reader polling before or after; on_conn_error afterwards",
        );
    }
    if args.wants("history") {
        let (lens, rooms): (Vec<usize>, Vec<usize>) = if args.thorough {
            (vec![0, 1, 62, 63, 64], vec![0, 1, 2, 3, 63, 64, 65, 66, 67, 130, 200])
        } else {
            (vec![0, 1, 63], vec![0, 1, 2, 64, 65, 66, 200])
        };
        let cfg = ExploreCfg {
            check_finish: true,
            time_cap: Duration::from_secs(if args.thorough { 300 } else { 20 }),
            ..Default::default()
        };
        let stats = explore(|| HSys::new(&lens, &rooms), &cfg);
        mc_core::explore::file_violations(&mut report, "history", json!({"lens": lens, "rooms": rooms}), &stats);
        report.sub(
            "history",
            stats.coverage(&format!(
                "BFS to closure over all histories of send(len in {lens:?}) (queue <= 3), load one packet(room in {rooms:?}), connection error on one real DatagramFlow; every packet is judged like in `assemble`; from every state a packet with ample room must empty the queue"
            )),
        );
    }
    let code = report.finish();
    if machinery {
        eprintln!("machinery error: harness errors were recorded (see evidence)");
        return 2;
    }
    code
}
