//! Key material for C06: Initial keys from `rustls::quic::Keys::initial`, Handshake / 0-RTT /
//! 1-RTT keys and `Secrets` from a real in-process rustls QUIC handshake (ring provider).
use std::sync::Arc;

use qbase::packet::keys::{ArcOneRttKeys, DirectionalKeys, Keys};
use rustls::{
    CipherSuite, DigitallySignedStruct, SignatureScheme,
    client::danger::{HandshakeSignatureValid, ServerCertVerified, ServerCertVerifier},
    crypto::{CryptoProvider, WebPkiSupportedAlgorithms},
    pki_types::{CertificateDer, PrivateKeyDer, ServerName, UnixTime, pem::PemObject},
    quic::{ClientConnection, KeyChange, Secrets, ServerConnection, Version},
};

pub const KEYCHAIN: &str = "/repo/tests/keychain/localhost";

/// The three TLS 1.3 suites QUIC v1 can use (RFC 9001 §5.3).
pub const SUITES: [(&str, CipherSuite); 3] = [
    ("aes128gcm", CipherSuite::TLS13_AES_128_GCM_SHA256),
    ("aes256gcm", CipherSuite::TLS13_AES_256_GCM_SHA384),
    ("chacha20poly1305", CipherSuite::TLS13_CHACHA20_POLY1305_SHA256),
];

pub fn suite_by_name(name: &str) -> Option<CipherSuite> {
    SUITES.iter().find(|(n, _)| *n == name).map(|(_, s)| *s)
}

/// Accepts the repository's test certificate without consulting the clock or a trust store
/// (the handshake is only a key generator here); the TLS 1.3 CertificateVerify signature is
/// still checked with the provider's algorithms.
#[derive(Debug)]
struct AcceptTestCert(WebPkiSupportedAlgorithms);

impl ServerCertVerifier for AcceptTestCert {
    fn verify_server_cert(
        &self,
        _end_entity: &CertificateDer<'_>,
        _intermediates: &[CertificateDer<'_>],
        _server_name: &ServerName<'_>,
        _ocsp_response: &[u8],
        _now: UnixTime,
    ) -> Result<ServerCertVerified, rustls::Error> {
        Ok(ServerCertVerified::assertion())
    }
    fn verify_tls12_signature(
        &self,
        _message: &[u8],
        _cert: &CertificateDer<'_>,
        _dss: &DigitallySignedStruct,
    ) -> Result<HandshakeSignatureValid, rustls::Error> {
        Err(rustls::Error::General("TLS 1.2 is not QUIC".into()))
    }
    fn verify_tls13_signature(
        &self,
        message: &[u8],
        cert: &CertificateDer<'_>,
        dss: &DigitallySignedStruct,
    ) -> Result<HandshakeSignatureValid, rustls::Error> {
        rustls::crypto::verify_tls13_signature(message, cert, dss, &self.0)
    }
    fn supported_verify_schemes(&self) -> Vec<SignatureScheme> {
        self.0.supported_schemes()
    }
}

fn provider_for(suite: CipherSuite) -> Result<Arc<CryptoProvider>, String> {
    let mut p = rustls::crypto::ring::default_provider();
    p.cipher_suites.retain(|cs| cs.suite() == suite);
    if p.cipher_suites.is_empty() {
        return Err(format!("ring provider lacks {suite:?}"));
    }
    Ok(Arc::new(p))
}

/// Initial keys exactly as `qconnection::builder::initial_keys_with` derives them: the
/// provider's TLS13_AES_128_GCM_SHA256 suite, `quic_suite().keys(dcid, side, V1)` (which is
/// `rustls::quic::Keys::initial(version, suite, quic, dcid, side)`).
pub fn initial_keys(origin_dcid: &[u8], side: rustls::Side) -> Keys {
    let provider = rustls::crypto::ring::default_provider();
    let suite = provider
        .cipher_suites
        .iter()
        .find_map(|cs| match (cs.suite(), cs.tls13()) {
            (CipherSuite::TLS13_AES_128_GCM_SHA256, Some(suite)) => Some(suite),
            _ => None,
        })
        .expect("ring provides TLS13_AES_128_GCM_SHA256");
    let quic = suite.quic.expect("suite supports QUIC");
    rustls::quic::Keys::initial(Version::V1, suite, quic, origin_dcid, side).into()
}

/// One endpoint's view after the handshake.
pub struct EndpointKeys {
    pub handshake: Keys,
    /// `(keys, secrets)` as handed to `ArcOneRttKeys::set_keys` — consumed when installed.
    pub one_rtt: Option<(rustls::quic::Keys, Secrets)>,
}

impl EndpointKeys {
    /// Installs the 1-RTT keys the way `qconnection::tls` does: `ArcOneRttKeys::new_pending()`
    /// then `set_keys(keys, secrets)`.
    pub fn install_one_rtt(&mut self) -> ArcOneRttKeys {
        let (keys, secrets) = self.one_rtt.take().expect("1-RTT keys already installed");
        let arc = ArcOneRttKeys::new_pending();
        arc.set_keys(keys, secrets);
        arc
    }
}

pub struct Handshake {
    pub client: EndpointKeys,
    pub server: EndpointKeys,
    /// client encrypt / server decrypt keys of a resumed connection's early data, if asked for
    pub zero_rtt: Option<(DirectionalKeys, DirectionalKeys)>,
    pub negotiated: String,
}

struct Configs {
    client: Arc<rustls::ClientConfig>,
    server: Arc<rustls::ServerConfig>,
}

fn configs(suite: CipherSuite) -> Result<Configs, String> {
    let provider = provider_for(suite)?;
    let certs: Vec<CertificateDer<'static>> =
        CertificateDer::pem_file_iter(format!("{KEYCHAIN}/server.cert"))
            .map_err(|e| format!("read server.cert: {e:?}"))?
            .collect::<Result<_, _>>()
            .map_err(|e| format!("parse server.cert: {e:?}"))?;
    let key = PrivateKeyDer::from_pem_file(format!("{KEYCHAIN}/server.key"))
        .map_err(|e| format!("read server.key: {e:?}"))?;

    let mut server = rustls::ServerConfig::builder_with_provider(provider.clone())
        .with_protocol_versions(&[&rustls::version::TLS13])
        .map_err(|e| e.to_string())?
        .with_no_client_auth()
        .with_single_cert(certs, key)
        .map_err(|e| e.to_string())?;
    server.alpn_protocols = vec![b"h3".to_vec()];
    server.max_early_data_size = 0xffff_ffff;

    let mut client = rustls::ClientConfig::builder_with_provider(provider.clone())
        .with_protocol_versions(&[&rustls::version::TLS13])
        .map_err(|e| e.to_string())?
        .dangerous()
        .with_custom_certificate_verifier(Arc::new(AcceptTestCert(
            provider.signature_verification_algorithms,
        )))
        .with_no_client_auth();
    client.alpn_protocols = vec![b"h3".to_vec()];
    client.enable_early_data = true;
    Ok(Configs {
        client: Arc::new(client),
        server: Arc::new(server),
    })
}

#[derive(Default)]
struct Collected {
    handshake: Option<rustls::quic::Keys>,
    one_rtt: Option<(rustls::quic::Keys, Secrets)>,
}

impl Collected {
    fn take(&mut self, kc: Option<KeyChange>) {
        match kc {
            Some(KeyChange::Handshake { keys }) => self.handshake = Some(keys),
            Some(KeyChange::OneRtt { keys, next }) => self.one_rtt = Some((keys, next)),
            None => {}
        }
    }
}

/// Runs both state machines to completion, shuttling CRYPTO data per encryption level.
fn drive(
    client: &mut ClientConnection,
    server: &mut ServerConnection,
) -> Result<(Collected, Collected, Option<(DirectionalKeys, DirectionalKeys)>), String> {
    let mut ck = Collected::default();
    let mut sk = Collected::default();
    let mut zero: (Option<DirectionalKeys>, Option<DirectionalKeys>) = (None, None);
    if let Some(k) = client.zero_rtt_keys() {
        zero.0 = Some(k.into());
    }
    for _round in 0..16 {
        let mut progressed = false;
        // one write_hs call emits the data of one encryption level
        loop {
            let mut buf = Vec::new();
            let kc = client.write_hs(&mut buf);
            let had_kc = kc.is_some();
            ck.take(kc);
            if !buf.is_empty() {
                progressed = true;
                server
                    .read_hs(&buf)
                    .map_err(|e| format!("server read_hs: {e:?}"))?;
                if zero.1.is_none() {
                    if let Some(k) = server.zero_rtt_keys() {
                        zero.1 = Some(k.into());
                    }
                }
            }
            if buf.is_empty() && !had_kc {
                break;
            }
            progressed |= had_kc;
        }
        loop {
            let mut buf = Vec::new();
            let kc = server.write_hs(&mut buf);
            let had_kc = kc.is_some();
            sk.take(kc);
            if !buf.is_empty() {
                progressed = true;
                client
                    .read_hs(&buf)
                    .map_err(|e| format!("client read_hs: {e:?}"))?;
            }
            if buf.is_empty() && !had_kc {
                break;
            }
            progressed |= had_kc;
        }
        if !progressed {
            break;
        }
    }
    if client.is_handshaking() || server.is_handshaking() {
        return Err("handshake did not complete".into());
    }
    let zero = match zero {
        (Some(c), Some(s)) => Some((c, s)),
        _ => None,
    };
    Ok((ck, sk, zero))
}

fn finish(c: Collected, s: Collected) -> Result<(EndpointKeys, EndpointKeys), String> {
    let ep = |c: Collected, who: &str| -> Result<EndpointKeys, String> {
        Ok(EndpointKeys {
            handshake: c
                .handshake
                .ok_or_else(|| format!("{who}: no handshake keys"))?
                .into(),
            one_rtt: Some(c.one_rtt.ok_or_else(|| format!("{who}: no 1-RTT keys"))?),
        })
    };
    Ok((ep(c, "client")?, ep(s, "server")?))
}

/// A full handshake; with `want_zero_rtt` a second, resumed handshake is run with the session
/// ticket of the first and its early-data keys are returned as well (the Handshake / 1-RTT
/// keys returned are then those of the resumed connection).
pub fn handshake(suite: CipherSuite, want_zero_rtt: bool) -> Result<Handshake, String> {
    let cfg = configs(suite)?;
    let name = ServerName::try_from("localhost").unwrap();
    let params = vec![0x01, 0x02, 0x67, 0x10]; // opaque to rustls
    let new = |cfg: &Configs| -> Result<(ClientConnection, ServerConnection), String> {
        Ok((
            ClientConnection::new(cfg.client.clone(), Version::V1, name.clone(), params.clone())
                .map_err(|e| e.to_string())?,
            ServerConnection::new(cfg.server.clone(), Version::V1, params.clone())
                .map_err(|e| e.to_string())?,
        ))
    };
    let (mut client, mut server) = new(&cfg)?;
    let (mut ck, mut sk, mut zero) = drive(&mut client, &mut server)?;
    let mut negotiated = format!("{:?}", client.negotiated_cipher_suite().map(|s| s.suite()));
    if want_zero_rtt {
        // the first connection delivered NewSessionTicket messages in its 1-RTT CRYPTO data
        let (mut c2, mut s2) = new(&cfg)?;
        let (ck2, sk2, zero2) = drive(&mut c2, &mut s2)?;
        if zero2.is_some() {
            ck = ck2;
            sk = sk2;
            zero = zero2;
            negotiated = format!(
                "{:?} (resumed, early data accepted: {})",
                c2.negotiated_cipher_suite().map(|s| s.suite()),
                c2.is_early_data_accepted()
            );
        }
    }
    let (client, server) = finish(ck, sk)?;
    Ok(Handshake {
        client,
        server,
        zero_rtt: zero,
        negotiated,
    })
}
